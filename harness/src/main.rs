//! Conformance harness: drives the real `netflow_parser` with an operation script and records an
//! ndjson trace of events carrying the complete projected abstract state (DESIGN.md §3.4).
//!
//!   nfharness run <ops.ndjson> <trace.ndjson> [--post export,common,json] [--timeout-ms N]
//!                 [--stack-kib N] [--mem-mib N]
//!   nfharness worker ...            (internal: the isolated child that touches the library)
//!
//! The parent never links a decision: it writes the `call` event *before* forwarding the operation
//! to the worker, so a stack overflow, abort, OOM kill or hang leaves a `call` without `ret`,
//! followed by a parent-written `crash` / `hang` event.

mod jview;
mod project;

use netflow_parser::static_versions::{v5, v7};
use netflow_parser::{NetflowPacket, NetflowParser};
use project::{bytes, Post};
use serde_json::{json, Value};
use std::alloc::{GlobalAlloc, Layout, System};
use std::collections::BTreeMap;
use std::io::{BufRead, BufReader, BufWriter, Write};
use std::panic::{catch_unwind, AssertUnwindSafe};
use std::process::{Child, ChildStdin, Command, Stdio};
use std::sync::atomic::{AtomicUsize, Ordering};
use std::sync::mpsc::{channel, Receiver, RecvTimeoutError};
use std::sync::Mutex;
use std::time::Duration;

// ---------------------------------------------------------------- counting allocator (C15)
struct Counting;
static TOTAL: AtomicUsize = AtomicUsize::new(0);
/// bytes a reallocation may have had to copy (the old size of every block that was grown or shrunk through realloc):
/// linear in what is allocated when vectors grow geometrically, quadratic when they grow by one element at a time
static MOVED: AtomicUsize = AtomicUsize::new(0);
static CUR: AtomicUsize = AtomicUsize::new(0);
static PEAK: AtomicUsize = AtomicUsize::new(0);
static NALLOC: AtomicUsize = AtomicUsize::new(0);

unsafe impl GlobalAlloc for Counting {
    unsafe fn alloc(&self, l: Layout) -> *mut u8 {
        let p = System.alloc(l);
        if !p.is_null() {
            TOTAL.fetch_add(l.size(), Ordering::Relaxed);
            NALLOC.fetch_add(1, Ordering::Relaxed);
            let c = CUR.fetch_add(l.size(), Ordering::Relaxed) + l.size();
            PEAK.fetch_max(c, Ordering::Relaxed);
        }
        p
    }
    unsafe fn dealloc(&self, p: *mut u8, l: Layout) {
        CUR.fetch_sub(l.size(), Ordering::Relaxed);
        System.dealloc(p, l)
    }
    unsafe fn realloc(&self, p: *mut u8, l: Layout, new: usize) -> *mut u8 {
        let q = System.realloc(p, l, new);
        if !q.is_null() {
            MOVED.fetch_add(l.size().min(new), Ordering::Relaxed);
            if new > l.size() {
                let d = new - l.size();
                TOTAL.fetch_add(d, Ordering::Relaxed);
                let c = CUR.fetch_add(d, Ordering::Relaxed) + d;
                PEAK.fetch_max(c, Ordering::Relaxed);
            } else {
                CUR.fetch_sub(l.size() - new, Ordering::Relaxed);
            }
            NALLOC.fetch_add(1, Ordering::Relaxed);
        }
        q
    }
}

#[global_allocator]
static A: Counting = Counting;

/// returns the number of bytes live at the start of the measured region
fn reset_counters() -> usize {
    TOTAL.store(0, Ordering::Relaxed);
    MOVED.store(0, Ordering::Relaxed);
    NALLOC.store(0, Ordering::Relaxed);
    let base = CUR.load(Ordering::Relaxed);
    PEAK.store(base, Ordering::Relaxed);
    base
}

// ---------------------------------------------------------------- helpers
fn get_bytes(op: &Value) -> Vec<u8> {
    if let Some(h) = op.get("hex").and_then(|h| h.as_str()) {
        (0..h.len() / 2).map(|i| u8::from_str_radix(&h[2 * i..2 * i + 2], 16).unwrap_or(0)).collect()
    } else if let Some(a) = op.get("buf").and_then(|b| b.as_array()) {
        a.iter().map(|x| x.as_u64().unwrap_or(0) as u8).collect()
    } else {
        vec![]
    }
}

fn fnv(s: &[u8]) -> String {
    let mut h: u64 = 0xcbf29ce484222325;
    for b in s {
        h ^= *b as u64;
        h = h.wrapping_mul(0x100000001b3);
    }
    format!("{:016x}", h)
}

static LAST_PANIC: Mutex<String> = Mutex::new(String::new());

// ---------------------------------------------------------------- worker
#[derive(Clone, Copy)]
struct Opts {
    post: Post,
    json: bool,
    big_kib: usize,
}

fn u16s(v: Option<&Value>) -> Vec<u16> {
    v.and_then(|a| a.as_array())
        .map(|a| a.iter().map(|x| x.as_u64().unwrap_or(0) as u16).collect())
        .unwrap_or_default()
}

thread_local! {
    /// digest of the caches last written to the trace, per parser: an unchanged cache is logged as {"same": true}
    static LAST_CACHE: std::cell::RefCell<BTreeMap<String, String>> = const { std::cell::RefCell::new(BTreeMap::new()) };
}

fn caches(ps: &BTreeMap<String, NetflowParser>) -> Value {
    Value::Array(
        ps.iter()
            .map(|(k, p)| {
                let c = project::cache(p);
                let d = fnv(c.to_string().as_bytes());
                let same = LAST_CACHE.with(|m| m.borrow().get(k) == Some(&d));
                if same {
                    json!({"p": k, "same": true, "tmpl": {}})
                } else {
                    LAST_CACHE.with(|m| m.borrow_mut().insert(k.clone(), d));
                    json!({"p": k, "same": false, "tmpl": c})
                }
            })
            .collect(),
    )
}

fn u32f(v: &Value, k: &str) -> u32 {
    let b: Vec<u8> = v.get(k).and_then(|a| a.as_array()).map(|a| a.iter().map(|x| x.as_u64().unwrap_or(0) as u8).collect()).unwrap_or_default();
    let mut x: u32 = 0;
    for y in b {
        x = (x << 8) | y as u32;
    }
    x
}

/// C08 second half: build a V5/V7 structure from field bytes, export it, parse the export.
fn struct_op(op: &Value, post: Post) -> Value {
    let ver = op.get("v").and_then(|v| v.as_u64()).unwrap_or(5);
    let h = op.get("hdr").cloned().unwrap_or(json!({}));
    let recs = op.get("recs").and_then(|r| r.as_array()).cloned().unwrap_or_default();
    let pkt = if ver == 5 {
        NetflowPacket::V5(v5::V5 {
            header: v5::Header {
                version: 5,
                count: h.get("count").and_then(|c| c.as_u64()).unwrap_or(0) as u16,
                sys_up_time: u32f(&h, "sys_up_time"),
                unix_secs: u32f(&h, "unix_secs"),
                unix_nsecs: u32f(&h, "unix_nsecs"),
                flow_sequence: u32f(&h, "flow_sequence"),
                engine_type: u32f(&h, "engine_type") as u8,
                engine_id: u32f(&h, "engine_id") as u8,
                sampling_interval: u32f(&h, "sampling_interval") as u16,
            },
            flowsets: recs
                .iter()
                .map(|r| v5::FlowSet {
                    src_addr: u32f(r, "src_addr").into(),
                    dst_addr: u32f(r, "dst_addr").into(),
                    next_hop: u32f(r, "next_hop").into(),
                    input: u32f(r, "input") as u16,
                    output: u32f(r, "output") as u16,
                    d_pkts: u32f(r, "d_pkts"),
                    d_octets: u32f(r, "d_octets"),
                    first: u32f(r, "first"),
                    last: u32f(r, "last"),
                    src_port: u32f(r, "src_port") as u16,
                    dst_port: u32f(r, "dst_port") as u16,
                    pad1: u32f(r, "pad1") as u8,
                    tcp_flags: u32f(r, "tcp_flags") as u8,
                    protocol_number: u32f(r, "protocol_number") as u8,
                    protocol_type: (u32f(r, "protocol_number") as u8).into(),
                    tos: u32f(r, "tos") as u8,
                    src_as: u32f(r, "src_as") as u16,
                    dst_as: u32f(r, "dst_as") as u16,
                    src_mask: u32f(r, "src_mask") as u8,
                    dst_mask: u32f(r, "dst_mask") as u8,
                    pad2: u32f(r, "pad2") as u16,
                })
                .collect(),
        })
    } else {
        NetflowPacket::V7(v7::V7 {
            header: v7::Header {
                version: 7,
                count: h.get("count").and_then(|c| c.as_u64()).unwrap_or(0) as u16,
                sys_up_time: u32f(&h, "sys_up_time"),
                unix_secs: u32f(&h, "unix_secs"),
                unix_nsecs: u32f(&h, "unix_nsecs"),
                flow_sequence: u32f(&h, "flow_sequence"),
                reserved: u32f(&h, "reserved"),
            },
            flowsets: recs
                .iter()
                .map(|r| v7::FlowSet {
                    src_addr: u32f(r, "src_addr").into(),
                    dst_addr: u32f(r, "dst_addr").into(),
                    next_hop: u32f(r, "next_hop").into(),
                    input: u32f(r, "input") as u16,
                    output: u32f(r, "output") as u16,
                    d_pkts: u32f(r, "d_pkts"),
                    d_octets: u32f(r, "d_octets"),
                    first: u32f(r, "first"),
                    last: u32f(r, "last"),
                    src_port: u32f(r, "src_port") as u16,
                    dst_port: u32f(r, "dst_port") as u16,
                    flags_fields_valid: u32f(r, "flags_fields_valid") as u8,
                    tcp_flags: u32f(r, "tcp_flags") as u8,
                    protocol_number: u32f(r, "protocol_number") as u8,
                    protocol_type: (u32f(r, "protocol_number") as u8).into(),
                    tos: u32f(r, "tos") as u8,
                    src_as: u32f(r, "src_as") as u16,
                    dst_as: u32f(r, "dst_as") as u16,
                    src_mask: u32f(r, "src_mask") as u8,
                    dst_mask: u32f(r, "dst_mask") as u8,
                    flags_fields_invalid: u32f(r, "flags_fields_invalid") as u16,
                    router_src: u32f(r, "router_src").into(),
                })
                .collect(),
        })
    };
    let exported: Vec<u8> = match &pkt {
        NetflowPacket::V5(x) => x.to_be_bytes(),
        NetflowPacket::V7(x) => x.to_be_bytes(),
        _ => vec![],
    };
    let back = NetflowParser::default().parse_bytes(&exported);
    json!({"e": "struct", "v": ver, "item": project::item(&pkt, post), "bytes": bytes(&exported),
           "back": back.iter().map(|p| project::item(p, post)).collect::<Vec<_>>()})
}

/// Runs operations until the input ends (returns None) or until a `reset` that asks for a fresh thread
/// (`"fresh": true`) arrives: that line is returned unprocessed and the caller continues with it on a new thread,
/// so that per-thread state of the library (thread_local!) is sometimes inherited by a session and sometimes not.
fn worker_loop(o: Opts, first: Option<String>) -> Option<String> {
    let stdin = std::io::stdin();
    let stdout = std::io::stdout();
    let mut out = BufWriter::new(stdout.lock());
    let mut ps: BTreeMap<String, NetflowParser> = BTreeMap::new();
    let mut at_start = first.is_some();
    let lines = first.into_iter().map(Ok).chain(stdin.lock().lines());
    for line in lines {
        let line = match line {
            Ok(l) => l,
            Err(_) => break,
        };
        if line.trim().is_empty() {
            continue;
        }
        if !at_start && line.contains("\"reset\"") && line.contains("\"fresh\"") {
            if let Ok(v) = serde_json::from_str::<Value>(&line) {
                if v.get("op").and_then(|k| k.as_str()) == Some("reset") && v.get("fresh").and_then(|k| k.as_bool()) == Some(true) {
                    out.flush().ok();
                    return Some(line);
                }
            }
        }
        at_start = false;
        let op: Value = match serde_json::from_str(&line) {
            Ok(v) => v,
            Err(e) => {
                writeln!(out, "{}", json!({"e": "toolerror", "msg": e.to_string()})).ok();
                out.flush().ok();
                continue;
            }
        };
        let kind = op.get("op").and_then(|k| k.as_str()).unwrap_or("");
        let p = op.get("p").and_then(|k| k.as_str()).unwrap_or("A").to_string();
        let ev: Value = match kind {
            "reset" => {
                ps.clear();
                LAST_CACHE.with(|m| m.borrow_mut().clear());
                json!({"e": "reset"})
            }
            "new" => {
                let mut np = NetflowParser::default();
                if op.get("allowed").is_some() {
                    np.allowed_versions = u16s(op.get("allowed")).into_iter().collect();
                }
                let a = project::allowed(&np);
                LAST_CACHE.with(|m| m.borrow_mut().remove(&p));
                ps.insert(p.clone(), np);
                json!({"e": "new", "p": p, "allowed": a})
            }
            "allow" => {
                let np = ps.entry(p.clone()).or_default();
                np.allowed_versions = u16s(op.get("allowed")).into_iter().collect();
                json!({"e": "allow", "p": p, "allowed": project::allowed(np)})
            }
            "call" | "flat" => {
                let buf = get_bytes(&op);
                let np = ps.entry(p.clone()).or_default();
                if kind == "flat" {
                    // a twin with the same caches and allowed set gives the per-packet common views of this buffer
                    let mut twin = NetflowParser::default();
                    twin.allowed_versions = np.allowed_versions.clone();
                    twin.v9_parser.templates = np.v9_parser.templates.clone();
                    twin.v9_parser.options_templates = np.v9_parser.options_templates.clone();
                    twin.ipfix_parser = np.ipfix_parser.clone();
                    let r = catch_unwind(AssertUnwindSafe(|| {
                        let items = twin.parse_bytes(&buf);
                        let per: Vec<Value> = items
                            .iter()
                            .map(|it| match it.as_netflow_common() {
                                Ok(c) => Value::Array(c.flowsets.iter().map(project::flow).collect()),
                                Err(_) => json!([]),
                            })
                            .collect();
                        let fl = np.parse_bytes_as_netflow_common_flowsets(&buf);
                        (per, fl)
                    }));
                    match r {
                        Ok((per, fl)) => json!({"e": "flatret", "p": p, "flows": fl.iter().map(project::flow).collect::<Vec<_>>(),
                                         "per_item": per, "caches": caches(&ps)}),
                        Err(_) => json!({"e": "panic", "p": p, "where": "flat", "msg": LAST_PANIC.lock().unwrap().clone()}),
                    }
                } else {
                    let base = reset_counters();
                    let r = catch_unwind(AssertUnwindSafe(|| np.parse_bytes(&buf)));
                    let total = TOTAL.load(Ordering::Relaxed);
                    let peak = PEAK.load(Ordering::Relaxed).saturating_sub(base);
                    let held = CUR.load(Ordering::Relaxed).saturating_sub(base);
                    let nalloc = NALLOC.load(Ordering::Relaxed);
                    let moved = MOVED.load(Ordering::Relaxed);
                    match r {
                        Ok(res) => {
                            // first line: what the library did (written before the result is projected, so
                            // that a harness that runs out of memory while projecting is not blamed on it)
                            let alloc = json!({"total_kib": ((total + 1023) / 1024) as u64, "peak_kib": ((peak + 1023) / 1024) as u64,
                                               "held_kib": ((held + 1023) / 1024) as u64, "n": nalloc as u64,
                                               "moved_kib": ((moved + 1023) / 1024) as u64});
                            writeln!(out, "{}", json!({"e": "parsed", "p": p, "alloc": alloc, "nout": res.len() as u64, "buflen": buf.len() as u64})).ok();
                            out.flush().ok();
                            if held > o.big_kib * 1024 {
                                drop(res);
                                json!({"e": "retbig", "p": p, "caches": caches(&ps), "alloc": alloc})
                            } else {
                            let items: Vec<Value> = res.iter().map(|x| project::item(x, o.post)).collect();
                            let js = if o.json {
                                let a = catch_unwind(AssertUnwindSafe(|| serde_json::to_string(&res)));
                                let b = catch_unwind(AssertUnwindSafe(|| serde_json::to_string(&res)));
                                match (a, b) {
                                    (Ok(Ok(a)), Ok(Ok(b))) => {
                                        let wf = serde_json::from_str::<Value>(&a).is_ok();
                                        let jl = jview::jleaves(&a);
                                        let sl = jview::sleaves(&res);
                                        let d = (0..jl.leaves.len().max(sl.len()))
                                            .find(|i| jl.leaves.get(*i) != sl.get(*i));
                                        let at = |v: &Vec<String>, i: Option<usize>| -> String {
                                            i.and_then(|i| v.get(i).cloned()).unwrap_or_default().chars().take(80).collect()
                                        };
                                        json!({"st": "ok", "wellformed": wf && jl.ok, "twice_equal": a == b,
                                               "len_kib": (a.len() / 1024) as u64, "sha": fnv(a.as_bytes()),
                                               "nj": jl.leaves.len() as u64, "ns": sl.len() as u64,
                                               "jsha": fnv(jl.leaves.join("\u{1}").as_bytes()),
                                               "ssha": fnv(sl.join("\u{1}").as_bytes()),
                                               "dj": at(&jl.leaves, d), "ds": at(&sl, d)})
                                    }
                                    (Ok(Err(_)), _) | (_, Ok(Err(_))) => json!({"st": "err", "wellformed": false, "twice_equal": false, "len_kib": 0, "sha": "", "nj": 0, "ns": 0, "jsha": "", "ssha": "", "dj": "", "ds": ""}),
                                    _ => json!({"st": "panic", "wellformed": false, "twice_equal": false, "len_kib": 0, "sha": "", "nj": 0, "ns": 0, "jsha": "", "ssha": "", "dj": "", "ds": ""}),
                                }
                            } else {
                                json!({"st": "off", "wellformed": false, "twice_equal": false, "len_kib": 0, "sha": "", "nj": 0, "ns": 0, "jsha": "", "ssha": "", "dj": "", "ds": ""})
                            };
                            json!({"e": "ret", "p": p, "out": items, "caches": caches(&ps), "alloc": alloc, "json": js})
                            }
                        }
                        Err(_) => json!({"e": "panic", "p": p, "where": "parse_bytes", "msg": LAST_PANIC.lock().unwrap().clone()}),
                    }
                }
            }
            "struct" => match catch_unwind(AssertUnwindSafe(|| struct_op(&op, o.post))) {
                Ok(v) => v,
                Err(_) => json!({"e": "panic", "p": p, "where": "struct", "msg": LAST_PANIC.lock().unwrap().clone()}),
            },
            "round" | "note" => {
                let mut v = op.clone();
                v.as_object_mut().unwrap().insert("e".into(), Value::String(kind.to_string()));
                v.as_object_mut().unwrap().remove("op");
                v
            }
            _ => json!({"e": "toolerror", "msg": format!("unknown op {}", kind)}),
        };
        writeln!(out, "{}", ev).ok();
        out.flush().ok();
    }
    None
}

fn worker_main(args: &[String]) {
    let mut post = Post::default();
    let mut json = false;
    let mut stack_kib = 2048usize;
    let mut mem_mib = 4096u64;
    let mut big_kib = 200 * 1024usize;
    let mut i = 0;
    while i < args.len() {
        match args[i].as_str() {
            "--post" => {
                for w in args[i + 1].split(',') {
                    match w {
                        "export" => post.export = true,
                        "export1" => post.export1 = true,
                        "light" => post.light = true,
                        "common" => post.common = true,
                        "json" => json = true,
                        _ => {}
                    }
                }
                i += 1;
            }
            "--stack-kib" => {
                stack_kib = args[i + 1].parse().unwrap_or(2048);
                i += 1;
            }
            "--big-kib" => {
                big_kib = args[i + 1].parse().unwrap_or(200 * 1024);
                i += 1;
            }
            "--mem-mib" => {
                mem_mib = args[i + 1].parse().unwrap_or(4096);
                i += 1;
            }
            _ => {}
        }
        i += 1;
    }
    unsafe {
        let lim = libc::rlimit { rlim_cur: mem_mib * 1024 * 1024, rlim_max: mem_mib * 1024 * 1024 };
        libc::setrlimit(libc::RLIMIT_AS, &lim);
        let core = libc::rlimit { rlim_cur: 0, rlim_max: 0 };
        libc::setrlimit(libc::RLIMIT_CORE, &core);
    }
    std::panic::set_hook(Box::new(|info| {
        let loc = info.location().map(|l| format!("{}:{}", l.file(), l.line())).unwrap_or_default();
        let msg = if let Some(s) = info.payload().downcast_ref::<&str>() {
            s.to_string()
        } else if let Some(s) = info.payload().downcast_ref::<String>() {
            s.clone()
        } else {
            String::new()
        };
        *LAST_PANIC.lock().unwrap() = format!("{} @ {}", msg, loc);
    }));
    let o = Opts { post, json, big_kib };
    let mut first: Option<String> = None;
    loop {
        let f = first.take();
        let h = std::thread::Builder::new().stack_size(stack_kib * 1024).spawn(move || worker_loop(o, f)).expect("spawn");
        match h.join() {
            Ok(Some(line)) => first = Some(line),
            _ => break,
        }
    }
}

// ---------------------------------------------------------------- parent
/// CPU time (user + system, all threads) the worker process has consumed so far, in milliseconds.
fn cpu_ms(pid: u32) -> Option<u64> {
    let s = std::fs::read_to_string(format!("/proc/{}/stat", pid)).ok()?;
    let rest = &s[s.rfind(')')? + 2..];
    let f: Vec<&str> = rest.split_whitespace().collect();
    let ut: u64 = f.get(11)?.parse().ok()?;
    let st: u64 = f.get(12)?.parse().ok()?;
    Some((ut + st) * 10) // USER_HZ = 100
}

/// Wait for the worker's answer.  The watchdog must not mistake a loaded machine for a hang: when the
/// wall-clock limit passes, the call counts as hung only if the worker itself burnt CPU for at least
/// 60% of the limit; otherwise the wait goes on, up to eight times the limit (a worker that neither
/// answers nor runs - a deadlock - is then reported as well).
fn recv_patient(w: &Worker, limit_ms: u64) -> Result<Option<String>, RecvTimeoutError> {
    let pid = w.child.id();
    let cpu0 = cpu_ms(pid);
    let slice = Duration::from_millis(limit_ms);
    for _round in 0..8 {
        match w.rx.recv_timeout(slice) {
            Err(RecvTimeoutError::Timeout) => {
                let used = match (cpu0, cpu_ms(pid)) {
                    (Some(a), Some(b)) => b.saturating_sub(a),
                    _ => return Err(RecvTimeoutError::Timeout),
                };
                if used * 10 >= limit_ms * 6 {
                    return Err(RecvTimeoutError::Timeout);
                }
            }
            other => return other,
        }
    }
    Err(RecvTimeoutError::Timeout)
}

struct Worker {
    child: Child,
    stdin: ChildStdin,
    rx: Receiver<Option<String>>,
    err: std::sync::Arc<Mutex<String>>,
}

fn spawn_worker(pass: &[String]) -> Worker {
    let exe = std::env::current_exe().expect("exe");
    let mut child = Command::new(exe)
        .arg("worker")
        .args(pass)
        .stdin(Stdio::piped())
        .stdout(Stdio::piped())
        .stderr(Stdio::piped())
        .spawn()
        .expect("spawn worker");
    let stdin = child.stdin.take().unwrap();
    let stdout = child.stdout.take().unwrap();
    let stderr = child.stderr.take().unwrap();
    let err = std::sync::Arc::new(Mutex::new(String::new()));
    let err2 = err.clone();
    std::thread::spawn(move || {
        for l in BufReader::new(stderr).lines().map_while(Result::ok) {
            let mut g = err2.lock().unwrap();
            if g.len() > 2000 {
                g.clear();
            }
            g.push_str(&l);
            g.push('\n');
        }
    });
    let (tx, rx) = channel();
    std::thread::spawn(move || {
        let r = BufReader::with_capacity(1 << 20, stdout);
        for l in r.lines() {
            match l {
                Ok(l) => {
                    if tx.send(Some(l)).is_err() {
                        return;
                    }
                }
                Err(_) => break,
            }
        }
        tx.send(None).ok();
    });
    Worker { child, stdin, rx, err }
}

fn run_main(args: &[String]) -> i32 {
    if args.len() < 2 {
        eprintln!("usage: nfharness run <ops> <trace> [opts]");
        return 2;
    }
    let ops = match std::fs::File::open(&args[0]) {
        Ok(f) => BufReader::with_capacity(1 << 20, f),
        Err(e) => {
            eprintln!("cannot open {}: {}", args[0], e);
            return 2;
        }
    };
    let mut tr = BufWriter::with_capacity(1 << 20, std::fs::File::create(&args[1]).expect("create trace"));
    let pass: Vec<String> = args[2..].to_vec();
    let mut timeout_ms = 30000u64;
    for i in 0..pass.len() {
        if pass[i] == "--timeout-ms" && i + 1 < pass.len() {
            timeout_ms = pass[i + 1].parse().unwrap_or(30000);
        }
    }
    let mut w = spawn_worker(&pass);
    let mut skipping = false;
    let (mut ncall, mut ncrash) = (0u64, 0u64);
    // every hang costs a full watchdog period: after a few of them the verdict is settled, the rest of the script is
    // skipped (a `note` event says so) instead of spending the same time again on every later session
    let mut nhang = 0u32;
    for line in ops.lines() {
        if nhang >= 4 {
            writeln!(tr, "{}", json!({"e": "note", "what": "hang budget exhausted: the rest of the script was not run"})).ok();
            break;
        }
        let line = line.expect("read ops");
        if line.trim().is_empty() {
            continue;
        }
        let op: Value = serde_json::from_str(&line).expect("ops json");
        let kind = op.get("op").and_then(|k| k.as_str()).unwrap_or("").to_string();
        if skipping {
            if kind == "reset" {
                skipping = false;
            } else {
                continue;
            }
        }
        if kind == "call" || kind == "flat" {
            ncall += 1;
            let b = get_bytes(&op);
            writeln!(tr, "{}", json!({"e": if kind == "call" { "call" } else { "flat" },
                "p": op.get("p").cloned().unwrap_or(json!("A")), "buf": bytes(&b)})).ok();
            tr.flush().ok();
        }
        let sent = writeln!(w.stdin, "{}", line).and_then(|_| w.stdin.flush());
        let reply = if sent.is_err() {
            Err(RecvTimeoutError::Disconnected)
        } else {
            recv_patient(&w, timeout_ms)
        };
        // a call answers with two lines: `parsed` (the library returned) and `ret` (the projected result)
        let mut parsed = false;
        let reply = match reply {
            Ok(Some(l)) if l.starts_with("{\"alloc\"") && l.contains("\"e\":\"parsed\"") => {
                writeln!(tr, "{}", l).ok();
                tr.flush().ok();
                parsed = true;
                recv_patient(&w, timeout_ms * 4)
            }
            other => other,
        };
        match reply {
            Ok(Some(l)) => {
                let is_panic = l.starts_with("{\"e\":\"panic\"");
                writeln!(tr, "{}", l).ok();
                if is_panic && (kind == "call" || kind == "flat") {
                    // the parser may be in an inconsistent state: abandon the session
                    skipping = true;
                    ncrash += 1;
                    w.child.kill().ok();
                    w.child.wait().ok();
                    w = spawn_worker(&pass);
                }
            }
            _ if parsed => {
                // the library had returned; the harness itself failed while projecting the result
                w.child.kill().ok();
                w.child.wait().ok();
                writeln!(tr, "{}", json!({"e": "toolcrash", "p": op.get("p").cloned().unwrap_or(json!("A"))})).ok();
                skipping = true;
                w = spawn_worker(&pass);
            }
            Ok(None) | Err(RecvTimeoutError::Disconnected) => {
                let st = w.child.wait().ok();
                #[cfg(unix)]
                let sig = {
                    use std::os::unix::process::ExitStatusExt;
                    st.and_then(|s| s.signal()).unwrap_or(0)
                };
                let code = st.and_then(|s| s.code()).unwrap_or(-1);
                std::thread::sleep(Duration::from_millis(20));
                let last = w.err.lock().unwrap().clone();
                // Rust's allocation-error handler prints this line before aborting
                let oom = last.contains("memory allocation of") && last.contains("failed");
                let overflow = last.contains("overflowed its stack") || last.contains("stack overflow");
                writeln!(tr, "{}", json!({"e": "crash", "p": op.get("p").cloned().unwrap_or(json!("A")),
                    "signal": sig, "code": code, "during": kind,
                    "cause": if oom { "oom" } else if overflow { "stack-overflow" } else { "other" }})).ok();
                ncrash += 1;
                skipping = true;
                w = spawn_worker(&pass);
            }
            Err(RecvTimeoutError::Timeout) => {
                w.child.kill().ok();
                w.child.wait().ok();
                writeln!(tr, "{}", json!({"e": "hang", "p": op.get("p").cloned().unwrap_or(json!("A")),
                    "timeout_ms": timeout_ms, "during": kind})).ok();
                nhang += 1;
                ncrash += 1;
                skipping = true;
                w = spawn_worker(&pass);
            }
        }
    }
    tr.flush().ok();
    drop(w.stdin);
    w.child.wait().ok();
    eprintln!("nfharness: calls={} crashes={}", ncall, ncrash);
    0
}

/// The library's public type assignment (field number -> kind), for the drivers: they pick
/// supported widths from it so that generated streams are conformant for the library's own typing.
fn kinds_main() {
    use netflow_parser::variable_versions::data_number::FieldDataType;
    use netflow_parser::variable_versions::ipfix_lookup::IPFixField;
    use netflow_parser::variable_versions::v9_lookup::V9Field;
    let mut v9 = serde_json::Map::new();
    let mut ix = serde_json::Map::new();
    for t in 0u16..=600 {
        let f = V9Field::from(t);
        v9.insert(t.to_string(), json!([format!("{:?}", f), format!("{:?}", FieldDataType::from(f))]));
        let g = IPFixField::from(t);
        ix.insert(t.to_string(), json!([format!("{:?}", g), format!("{:?}", FieldDataType::from(g))]));
    }
    println!("{}", json!({"v9": v9, "ipfix": ix, "puf": cfg!(feature = "puf")}));
}

fn main() {
    let args: Vec<String> = std::env::args().collect();
    if args.len() < 2 {
        eprintln!("usage: nfharness run|worker ...");
        std::process::exit(2);
    }
    match args[1].as_str() {
        "worker" => worker_main(&args[2..]),
        "run" => std::process::exit(run_main(&args[2..])),
        "kinds" => kinds_main(),
        _ => {
            eprintln!("unknown subcommand");
            std::process::exit(2);
        }
    }
}
