//! C16: two independent flattenings of a parse result into a sequence of leaf values.
//!
//!   jleaves(text)  : from the JSON *text* serde produced, with a small tokenizer that keeps numbers as the
//!                    digit strings found in the text (so 128-bit counters survive) and walks in document order;
//!   sleaves(result): from the decoded structure itself, field by field in declaration order.
//!
//! Object keys (field and variant names) are not leaves: only values are compared, so a renamed key is not a
//! difference but a changed, missing, reordered or invented value is.  The comparison itself is done by TLC.

use netflow_parser::static_versions::{v5, v7};
use netflow_parser::variable_versions::data_number::{DataNumber, FieldValue};
use netflow_parser::variable_versions::{ipfix, v9};
use netflow_parser::{NetflowPacket, NetflowParseError};

// ------------------------------------------------------------------ JSON text -> leaves
pub struct JsonLeaves {
    pub ok: bool,
    pub leaves: Vec<String>,
}

struct P<'a> {
    s: &'a [u8],
    i: usize,
    out: Vec<String>,
    depth: usize,
}

impl<'a> P<'a> {
    fn ws(&mut self) {
        while self.i < self.s.len() && matches!(self.s[self.i], b' ' | b'\n' | b'\r' | b'\t') {
            self.i += 1;
        }
    }
    fn string(&mut self) -> Option<String> {
        if self.s.get(self.i) != Some(&b'"') {
            return None;
        }
        self.i += 1;
        let mut buf: Vec<u8> = vec![];
        loop {
            let c = *self.s.get(self.i)?;
            self.i += 1;
            match c {
                b'"' => break,
                b'\\' => {
                    let e = *self.s.get(self.i)?;
                    self.i += 1;
                    match e {
                        b'"' => buf.push(b'"'),
                        b'\\' => buf.push(b'\\'),
                        b'/' => buf.push(b'/'),
                        b'b' => buf.push(8),
                        b'f' => buf.push(12),
                        b'n' => buf.push(b'\n'),
                        b'r' => buf.push(b'\r'),
                        b't' => buf.push(b'\t'),
                        b'u' => {
                            let h = std::str::from_utf8(self.s.get(self.i..self.i + 4)?).ok()?;
                            let mut cp = u32::from_str_radix(h, 16).ok()?;
                            self.i += 4;
                            if (0xD800..0xDC00).contains(&cp) && self.s.get(self.i..self.i + 2) == Some(b"\\u") {
                                let h2 = std::str::from_utf8(self.s.get(self.i + 2..self.i + 6)?).ok()?;
                                let lo = u32::from_str_radix(h2, 16).ok()?;
                                self.i += 6;
                                cp = 0x10000 + ((cp - 0xD800) << 10) + (lo.wrapping_sub(0xDC00));
                            }
                            let ch = char::from_u32(cp)?;
                            let mut b = [0u8; 4];
                            buf.extend_from_slice(ch.encode_utf8(&mut b).as_bytes());
                        }
                        _ => return None,
                    }
                }
                c if c < 0x20 => return None,
                c => buf.push(c),
            }
        }
        String::from_utf8(buf).ok()
    }
    fn value(&mut self) -> Option<()> {
        self.depth += 1;
        if self.depth > 200 {
            return None;
        }
        self.ws();
        let c = *self.s.get(self.i)?;
        match c {
            b'{' => {
                self.i += 1;
                self.ws();
                if self.s.get(self.i) == Some(&b'}') {
                    self.i += 1;
                } else {
                    loop {
                        self.ws();
                        self.string()?; // key: not a leaf
                        self.ws();
                        if self.s.get(self.i) != Some(&b':') {
                            return None;
                        }
                        self.i += 1;
                        self.value()?;
                        self.ws();
                        match self.s.get(self.i)? {
                            b',' => self.i += 1,
                            b'}' => {
                                self.i += 1;
                                break;
                            }
                            _ => return None,
                        }
                    }
                }
            }
            b'[' => {
                self.i += 1;
                self.ws();
                if self.s.get(self.i) == Some(&b']') {
                    self.i += 1;
                } else {
                    loop {
                        self.value()?;
                        self.ws();
                        match self.s.get(self.i)? {
                            b',' => self.i += 1,
                            b']' => {
                                self.i += 1;
                                break;
                            }
                            _ => return None,
                        }
                    }
                }
            }
            b'"' => {
                let s = self.string()?;
                self.out.push(format!("s:{}", s));
            }
            b't' if self.s.get(self.i..self.i + 4) == Some(b"true") => {
                self.i += 4;
                self.out.push("b:true".into());
            }
            b'f' if self.s.get(self.i..self.i + 5) == Some(b"false") => {
                self.i += 5;
                self.out.push("b:false".into());
            }
            b'n' if self.s.get(self.i..self.i + 4) == Some(b"null") => {
                self.i += 4;
                self.out.push("null".into());
            }
            b'-' | b'0'..=b'9' => {
                let st = self.i;
                self.i += 1;
                while self.i < self.s.len() && matches!(self.s[self.i], b'0'..=b'9' | b'.' | b'e' | b'E' | b'+' | b'-') {
                    self.i += 1;
                }
                let t = std::str::from_utf8(&self.s[st..self.i]).ok()?;
                if t.contains(['.', 'e', 'E']) {
                    let f: f64 = t.parse().ok()?;
                    self.out.push(format!("f:{:016x}", f.to_bits()));
                } else {
                    // integers keep their digits (no narrowing through f64 / u64)
                    if !t.trim_start_matches('-').bytes().all(|b| b.is_ascii_digit()) {
                        return None;
                    }
                    self.out.push(format!("n:{}", t));
                }
            }
            _ => return None,
        }
        self.depth -= 1;
        Some(())
    }
}

pub fn jleaves(text: &str) -> JsonLeaves {
    let mut p = P { s: text.as_bytes(), i: 0, out: vec![], depth: 0 };
    let ok = p.value().is_some() && {
        p.ws();
        p.i == p.s.len()
    };
    JsonLeaves { ok, leaves: p.out }
}

// ------------------------------------------------------------------ structure -> leaves
fn n<T: std::fmt::Display>(o: &mut Vec<String>, x: T) {
    o.push(format!("n:{}", x));
}
fn s<T: std::fmt::Display>(o: &mut Vec<String>, x: T) {
    o.push(format!("s:{}", x));
}
fn bytes(o: &mut Vec<String>, b: &[u8]) {
    for x in b {
        n(o, x);
    }
}

fn value(o: &mut Vec<String>, v: &FieldValue) {
    match v {
        FieldValue::String(x) => s(o, x),
        FieldValue::DataNumber(d) => match d {
            DataNumber::U8(x) => n(o, x),
            DataNumber::U16(x) => n(o, x),
            DataNumber::U24(x) => n(o, x),
            DataNumber::I24(x) => n(o, x),
            DataNumber::U32(x) => n(o, x),
            DataNumber::U64(x) => n(o, x),
            DataNumber::U128(x) => n(o, x),
            DataNumber::I32(x) => n(o, x),
        },
        FieldValue::Float64(f) => {
            if f.is_finite() {
                o.push(format!("f:{:016x}", f.to_bits()))
            } else {
                o.push("f:nonfinite".into())
            }
        }
        FieldValue::Duration(d) => {
            n(o, d.as_secs());
            n(o, d.subsec_nanos());
        }
        FieldValue::Ip4Addr(ip) => s(o, ip),
        FieldValue::Ip6Addr(ip) => s(o, ip),
        FieldValue::MacAddr(m) => s(o, m),
        FieldValue::Vec(b) => bytes(o, b),
        FieldValue::ProtocolType(p) => s(o, format!("{:?}", p)),
        FieldValue::Unknown(b) => bytes(o, b),
    }
}

fn v5l(o: &mut Vec<String>, p: &v5::V5) {
    let h = &p.header;
    n(o, h.version);
    n(o, h.count);
    n(o, h.sys_up_time);
    n(o, h.unix_secs);
    n(o, h.unix_nsecs);
    n(o, h.flow_sequence);
    n(o, h.engine_type);
    n(o, h.engine_id);
    n(o, h.sampling_interval);
    for r in &p.flowsets {
        s(o, r.src_addr);
        s(o, r.dst_addr);
        s(o, r.next_hop);
        n(o, r.input);
        n(o, r.output);
        n(o, r.d_pkts);
        n(o, r.d_octets);
        n(o, r.first);
        n(o, r.last);
        n(o, r.src_port);
        n(o, r.dst_port);
        n(o, r.pad1);
        n(o, r.tcp_flags);
        n(o, r.protocol_number);
        s(o, format!("{:?}", r.protocol_type));
        n(o, r.tos);
        n(o, r.src_as);
        n(o, r.dst_as);
        n(o, r.src_mask);
        n(o, r.dst_mask);
        n(o, r.pad2);
    }
}

fn v7l(o: &mut Vec<String>, p: &v7::V7) {
    let h = &p.header;
    n(o, h.version);
    n(o, h.count);
    n(o, h.sys_up_time);
    n(o, h.unix_secs);
    n(o, h.unix_nsecs);
    n(o, h.flow_sequence);
    n(o, h.reserved);
    for r in &p.flowsets {
        s(o, r.src_addr);
        s(o, r.dst_addr);
        s(o, r.next_hop);
        n(o, r.input);
        n(o, r.output);
        n(o, r.d_pkts);
        n(o, r.d_octets);
        n(o, r.first);
        n(o, r.last);
        n(o, r.src_port);
        n(o, r.dst_port);
        n(o, r.flags_fields_valid);
        n(o, r.tcp_flags);
        n(o, r.protocol_number);
        s(o, format!("{:?}", r.protocol_type));
        n(o, r.tos);
        n(o, r.src_as);
        n(o, r.dst_as);
        n(o, r.src_mask);
        n(o, r.dst_mask);
        n(o, r.flags_fields_invalid);
        s(o, r.router_src);
    }
}

fn v9l(o: &mut Vec<String>, p: &v9::V9) {
    let h = &p.header;
    n(o, h.version);
    n(o, h.count);
    n(o, h.sys_up_time);
    n(o, h.unix_secs);
    n(o, h.sequence_number);
    n(o, h.source_id);
    for fs in &p.flowsets {
        n(o, fs.header.flowset_id);
        n(o, fs.header.length);
        match &fs.body {
            v9::FlowSetBody::Template(t) => {
                for r in &t.templates {
                    n(o, r.template_id);
                    n(o, r.field_count);
                    for f in &r.fields {
                        n(o, f.field_type_number);
                        s(o, format!("{:?}", f.field_type));
                        n(o, f.field_length);
                    }
                }
            }
            v9::FlowSetBody::OptionsTemplate(t) => {
                for r in &t.templates {
                    n(o, r.template_id);
                    n(o, r.options_scope_length);
                    n(o, r.options_length);
                    for f in &r.scope_fields {
                        n(o, f.field_type_number);
                        s(o, format!("{:?}", f.field_type));
                        n(o, f.field_length);
                    }
                    for f in &r.option_fields {
                        n(o, f.field_type_number);
                        s(o, format!("{:?}", f.field_type));
                        n(o, f.field_length);
                    }
                }
            }
            v9::FlowSetBody::Data(d) => {
                for rec in &d.fields {
                    // template order: the record's fields by increasing index
                    for (_, (ft, v)) in rec.iter() {
                        s(o, format!("{:?}", ft));
                        value(o, v);
                    }
                }
            }
            v9::FlowSetBody::OptionsData(d) => {
                for f in &d.scope_fields {
                    let b = match f {
                        v9::ScopeDataField::System(b)
                        | v9::ScopeDataField::Interface(b)
                        | v9::ScopeDataField::LineCard(b)
                        | v9::ScopeDataField::NetFlowCache(b)
                        | v9::ScopeDataField::Template(b) => b,
                    };
                    bytes(o, b);
                }
                for f in &d.options_fields {
                    s(o, format!("{:?}", f.field_type));
                    bytes(o, &f.field_value);
                }
            }
        }
    }
}

fn ixfields(o: &mut Vec<String>, fs: &[ipfix::TemplateField]) {
    for f in fs {
        n(o, f.field_type_number);
        s(o, format!("{:?}", f.field_type));
        n(o, f.field_length);
        if let Some(e) = f.enterprise_number {
            n(o, e);
        }
    }
}

fn ipfixl(o: &mut Vec<String>, p: &ipfix::IPFix) {
    let h = &p.header;
    n(o, h.version);
    n(o, h.length);
    n(o, h.export_time);
    n(o, h.sequence_number);
    n(o, h.observation_domain_id);
    for fs in &p.flowsets {
        n(o, fs.header.header_id);
        n(o, fs.header.length);
        match &fs.body {
            ipfix::FlowSetBody::Template(t) => {
                n(o, t.template_id);
                n(o, t.field_count);
                ixfields(o, &t.fields);
            }
            ipfix::FlowSetBody::OptionsTemplate(t) => {
                n(o, t.template_id);
                n(o, t.field_count);
                n(o, t.scope_field_count);
                ixfields(o, &t.fields);
            }
            ipfix::FlowSetBody::Data(d) => {
                for m in &d.fields {
                    for (_, (ft, v)) in m.iter() {
                        s(o, format!("{:?}", ft));
                        value(o, v);
                    }
                }
            }
            ipfix::FlowSetBody::OptionsData(d) => {
                for m in &d.fields {
                    for (_, (ft, v)) in m.iter() {
                        s(o, format!("{:?}", ft));
                        value(o, v);
                    }
                }
            }
        }
    }
}

pub fn sleaves(res: &[NetflowPacket]) -> Vec<String> {
    let mut o = vec![];
    for p in res {
        match p {
            NetflowPacket::V5(x) => v5l(&mut o, x),
            NetflowPacket::V7(x) => v7l(&mut o, x),
            NetflowPacket::V9(x) => v9l(&mut o, x),
            NetflowPacket::IPFix(x) => ipfixl(&mut o, x),
            NetflowPacket::Error(e) => {
                match &e.error {
                    NetflowParseError::Incomplete(m) => s(&mut o, m),
                    NetflowParseError::Partial(pp) => {
                        n(&mut o, pp.version);
                        bytes(&mut o, &pp.remaining);
                        s(&mut o, &pp.error);
                    }
                    NetflowParseError::UnallowedVersion(v) => n(&mut o, v),
                    NetflowParseError::UnknownVersion(b) => bytes(&mut o, b),
                }
                bytes(&mut o, &e.remaining);
            }
        }
    }
    o
}
