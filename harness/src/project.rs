//! Projection of the library's public structures onto the JSON shapes of DESIGN.md Appendix A.
//!
//! No decoding logic lives here: every structure is flattened field by field, every typed value
//! is turned back into canonical big-endian bytes with the standard library.  All integers that
//! reach the trace are < 2^31 (TLC integers are 32 bit); everything wider is a byte array.

use netflow_parser::netflow_common::NetflowCommonFlowSet;
use netflow_parser::protocol::ProtocolTypes;
use netflow_parser::static_versions::{v5, v7};
use netflow_parser::variable_versions::data_number::{DataNumber, FieldDataType, FieldValue};
use netflow_parser::variable_versions::{ipfix, v9};
use netflow_parser::{NetflowPacket, NetflowParseError, NetflowParser};
use serde_json::{json, Map, Value};
use std::net::IpAddr;
use std::panic::{catch_unwind, AssertUnwindSafe};

pub fn bytes(b: &[u8]) -> Value {
    Value::Array(b.iter().map(|x| Value::from(*x as u64)).collect())
}

#[derive(Clone, Copy, Default)]
pub struct Post {
    pub export: bool,
    /// export at packet level only (no per-set / per-value exports): for very large results
    pub export1: bool,
    pub common: bool,
    /// summarise data sets (record / value / byte counts) instead of listing every value: adversarial 64 KiB inputs
    pub light: bool,
}

/// lower-case alphanumerics of a symbolic name (spelling-insensitive comparison with IANA keywords)
pub fn norm(s: &str) -> String {
    s.chars().filter(|c| c.is_ascii_alphanumeric()).map(|c| c.to_ascii_lowercase()).collect()
}

fn mac_bytes(s: &str) -> (bool, Vec<u8>) {
    let parts: Vec<&str> = s.split(':').collect();
    if parts.len() == 6 {
        let mut out = vec![];
        for p in parts {
            match u8::from_str_radix(p, 16) {
                Ok(b) if p.len() == 2 => out.push(b),
                _ => return (false, s.as_bytes().to_vec()),
            }
        }
        (true, out)
    } else {
        (false, s.as_bytes().to_vec())
    }
}

fn dur_units(d: &std::time::Duration) -> Value {
    let f = |x: u128| -> Value {
        if x > u64::MAX as u128 {
            Value::Array(vec![])
        } else {
            bytes(&(x as u64).to_be_bytes())
        }
    };
    Value::Array(vec![
        f(d.as_secs() as u128),
        f(d.as_millis()),
        f(d.as_micros()),
        f(d.as_nanos()),
    ])
}

/// Display form of a value: the form that can be re-derived from the JSON text (C16).
pub fn disp(v: &FieldValue) -> String {
    match v {
        FieldValue::String(s) => format!("s:{}", s),
        FieldValue::DataNumber(d) => match d {
            DataNumber::U8(x) => format!("n:{}", x),
            DataNumber::U16(x) => format!("n:{}", x),
            DataNumber::U24(x) => format!("n:{}", x),
            DataNumber::I24(x) => format!("n:{}", x),
            DataNumber::U32(x) => format!("n:{}", x),
            DataNumber::U64(x) => format!("n:{}", x),
            DataNumber::U128(x) => format!("n:{}", x),
            DataNumber::I32(x) => format!("n:{}", x),
        },
        FieldValue::Float64(f) => {
            if f.is_finite() {
                // the shortest round-trip form serde_json also uses
                format!("f:{:?}", f)
            } else {
                "f:nonfinite".to_string()
            }
        }
        FieldValue::Duration(d) => format!("d:{}:{}", d.as_secs(), d.subsec_nanos()),
        FieldValue::Ip4Addr(ip) => format!("s:{}", ip),
        FieldValue::Ip6Addr(ip) => format!("s:{}", ip),
        FieldValue::MacAddr(s) => format!("s:{}", s),
        FieldValue::Vec(v) => format!("b:{:?}", v),
        FieldValue::ProtocolType(p) => format!("s:{:?}", p),
        FieldValue::Unknown(v) => format!("b:{:?}", v),
    }
}

pub fn val(v: &FieldValue, post: Post) -> Value {
    let (tag, b, d, s): (&str, Vec<u8>, Value, String) = match v {
        FieldValue::String(s) => ("String", s.as_bytes().to_vec(), json!([]), String::new()),
        FieldValue::DataNumber(dn) => match dn {
            DataNumber::U8(x) => ("U8", vec![*x], json!([]), String::new()),
            DataNumber::U16(x) => ("U16", x.to_be_bytes().to_vec(), json!([]), String::new()),
            DataNumber::U24(x) => {
                let b = x.to_be_bytes();
                if b[0] == 0 {
                    ("U24", b[1..].to_vec(), json!([]), String::new())
                } else {
                    ("U24", b.to_vec(), json!([]), String::new())
                }
            }
            DataNumber::I24(x) => ("I24", x.to_be_bytes().to_vec(), json!([]), String::new()),
            DataNumber::U32(x) => ("U32", x.to_be_bytes().to_vec(), json!([]), String::new()),
            DataNumber::U64(x) => ("U64", x.to_be_bytes().to_vec(), json!([]), String::new()),
            DataNumber::U128(x) => ("U128", x.to_be_bytes().to_vec(), json!([]), String::new()),
            DataNumber::I32(x) => ("I32", x.to_be_bytes().to_vec(), json!([]), String::new()),
        },
        FieldValue::Float64(f) => ("F64", f.to_bits().to_be_bytes().to_vec(), json!([]), String::new()),
        FieldValue::Duration(d) => ("Duration", vec![], dur_units(d), String::new()),
        FieldValue::Ip4Addr(ip) => ("Ip4", ip.octets().to_vec(), json!([]), String::new()),
        FieldValue::Ip6Addr(ip) => ("Ip6", ip.octets().to_vec(), json!([]), String::new()),
        FieldValue::MacAddr(s) => {
            let (ok, b) = mac_bytes(s);
            (if ok { "Mac" } else { "MacBad" }, b, json!([]), String::new())
        }
        FieldValue::Vec(v) => ("Vec", v.clone(), json!([]), String::new()),
        FieldValue::ProtocolType(p) => ("Proto", vec![*p as u8], json!([]), norm(&format!("{:?}", p))),
        FieldValue::Unknown(v) => ("Unknown", v.clone(), json!([]), String::new()),
    };
    let (xok, x) = if post.export {
        match catch_unwind(AssertUnwindSafe(|| v.to_be_bytes())) {
            Ok(Ok(b)) => ("ok", b),
            Ok(Err(_)) => ("err", vec![]),
            Err(_) => ("panic", vec![]),
        }
    } else {
        ("off", vec![])
    };
    json!({"tag": tag, "b": bytes(&b), "d": d, "s": s, "xok": xok, "x": bytes(&x), "disp": disp(v)})
}

fn v5_item(p: &v5::V5) -> Value {
    let h = &p.header;
    let recs: Vec<Value> = p
        .flowsets
        .iter()
        .map(|r| {
            json!({
                "src_addr": bytes(&r.src_addr.octets()), "dst_addr": bytes(&r.dst_addr.octets()),
                "next_hop": bytes(&r.next_hop.octets()),
                "input": bytes(&r.input.to_be_bytes()), "output": bytes(&r.output.to_be_bytes()),
                "d_pkts": bytes(&r.d_pkts.to_be_bytes()), "d_octets": bytes(&r.d_octets.to_be_bytes()),
                "first": bytes(&r.first.to_be_bytes()), "last": bytes(&r.last.to_be_bytes()),
                "src_port": bytes(&r.src_port.to_be_bytes()), "dst_port": bytes(&r.dst_port.to_be_bytes()),
                "pad1": bytes(&[r.pad1]), "tcp_flags": bytes(&[r.tcp_flags]),
                "protocol_number": bytes(&[r.protocol_number]),
                "pname": format!("{:?}", r.protocol_type), "pnorm": norm(&format!("{:?}", r.protocol_type)),
                "tos": bytes(&[r.tos]),
                "src_as": bytes(&r.src_as.to_be_bytes()), "dst_as": bytes(&r.dst_as.to_be_bytes()),
                "src_mask": bytes(&[r.src_mask]), "dst_mask": bytes(&[r.dst_mask]),
                "pad2": bytes(&r.pad2.to_be_bytes()),
            })
        })
        .collect();
    json!({"k": "v5", "hdr": {
        "version": h.version as u64, "count": h.count as u64,
        "sys_up_time": bytes(&h.sys_up_time.to_be_bytes()), "unix_secs": bytes(&h.unix_secs.to_be_bytes()),
        "unix_nsecs": bytes(&h.unix_nsecs.to_be_bytes()), "flow_sequence": bytes(&h.flow_sequence.to_be_bytes()),
        "engine_type": bytes(&[h.engine_type]), "engine_id": bytes(&[h.engine_id]),
        "sampling_interval": bytes(&h.sampling_interval.to_be_bytes())}, "recs": recs})
}

fn v7_item(p: &v7::V7) -> Value {
    let h = &p.header;
    let recs: Vec<Value> = p
        .flowsets
        .iter()
        .map(|r| {
            json!({
                "src_addr": bytes(&r.src_addr.octets()), "dst_addr": bytes(&r.dst_addr.octets()),
                "next_hop": bytes(&r.next_hop.octets()),
                "input": bytes(&r.input.to_be_bytes()), "output": bytes(&r.output.to_be_bytes()),
                "d_pkts": bytes(&r.d_pkts.to_be_bytes()), "d_octets": bytes(&r.d_octets.to_be_bytes()),
                "first": bytes(&r.first.to_be_bytes()), "last": bytes(&r.last.to_be_bytes()),
                "src_port": bytes(&r.src_port.to_be_bytes()), "dst_port": bytes(&r.dst_port.to_be_bytes()),
                "flags_fields_valid": bytes(&[r.flags_fields_valid]), "tcp_flags": bytes(&[r.tcp_flags]),
                "protocol_number": bytes(&[r.protocol_number]),
                "pname": format!("{:?}", r.protocol_type), "pnorm": norm(&format!("{:?}", r.protocol_type)),
                "tos": bytes(&[r.tos]),
                "src_as": bytes(&r.src_as.to_be_bytes()), "dst_as": bytes(&r.dst_as.to_be_bytes()),
                "src_mask": bytes(&[r.src_mask]), "dst_mask": bytes(&[r.dst_mask]),
                "flags_fields_invalid": bytes(&r.flags_fields_invalid.to_be_bytes()),
                "router_src": bytes(&r.router_src.octets()),
            })
        })
        .collect();
    json!({"k": "v7", "hdr": {
        "version": h.version as u64, "count": h.count as u64,
        "sys_up_time": bytes(&h.sys_up_time.to_be_bytes()), "unix_secs": bytes(&h.unix_secs.to_be_bytes()),
        "unix_nsecs": bytes(&h.unix_nsecs.to_be_bytes()), "flow_sequence": bytes(&h.flow_sequence.to_be_bytes()),
        "reserved": bytes(&h.reserved.to_be_bytes())}, "recs": recs})
}

fn v9_fspec(f: &v9::TemplateField) -> Value {
    json!({"t": f.field_type_number as u64, "len": f.field_length as u64, "ent": false, "pen": [],
           "name": format!("{:?}", f.field_type),
           "kind": format!("{:?}", FieldDataType::from(f.field_type))})
}

fn v9_sspec(f: &v9::OptionsTemplateScopeField) -> Value {
    json!({"t": f.field_type_number as u64, "len": f.field_length as u64, "ent": false, "pen": [],
           "name": format!("{:?}", f.field_type), "kind": "Scope"})
}

pub fn v9_template(t: &v9::Template) -> Value {
    json!({"id": t.template_id as u64, "count": t.field_count as u64,
           "fields": t.fields.iter().map(v9_fspec).collect::<Vec<_>>()})
}

pub fn v9_otemplate(t: &v9::OptionsTemplate) -> Value {
    json!({"id": t.template_id as u64, "scope_len": t.options_scope_length as u64,
           "opt_len": t.options_length as u64,
           "scope": t.scope_fields.iter().map(v9_sspec).collect::<Vec<_>>(),
           "opts": t.option_fields.iter().map(v9_fspec).collect::<Vec<_>>()})
}

fn v9_item(p: &v9::V9, post: Post) -> Value {
    let h = &p.header;
    let sets: Vec<Value> = p
        .flowsets
        .iter()
        .map(|s| {
            let id = s.header.flowset_id as u64;
            let len = s.header.length as u64;
            match &s.body {
                v9::FlowSetBody::Template(t) => json!({"k": "tmpl", "id": id, "len": len,
                    "recs": t.templates.iter().map(v9_template).collect::<Vec<_>>(),
                    "pad": bytes(&t.padding)}),
                v9::FlowSetBody::OptionsTemplate(t) => json!({"k": "otmpl", "id": id, "len": len,
                    "recs": t.templates.iter().map(v9_otemplate).collect::<Vec<_>>(),
                    "pad": bytes(&t.padding)}),
                v9::FlowSetBody::Data(d) if post.light => {
                    let nval: usize = d.fields.iter().map(|r| r.len()).sum();
                    let vbytes: usize = d.fields.iter().flat_map(|r| r.values()).map(|(_, v)| vbytes(v)).sum();
                    json!({"k": "data", "id": id, "len": len, "nrec": d.fields.len() as u64, "nval": nval as u64,
                           "vbytes": vbytes as u64, "pad": bytes(&d.padding)})
                }
                v9::FlowSetBody::Data(d) => json!({"k": "data", "id": id, "len": len,
                    "recs": d.fields.iter().map(|rec| {
                        rec.iter().map(|(idx, (ft, v))| json!({"i": *idx as u64, "t": *ft as u16 as u64,
                            "v": val(v, post)})).collect::<Vec<_>>()
                    }).collect::<Vec<_>>(),
                    "pad": bytes(&d.padding)}),
                v9::FlowSetBody::OptionsData(d) => {
                    let sc = |f: &v9::ScopeDataField| -> Value {
                        let (n, b) = match f {
                            v9::ScopeDataField::System(b) => ("System", b),
                            v9::ScopeDataField::Interface(b) => ("Interface", b),
                            v9::ScopeDataField::LineCard(b) => ("LineCard", b),
                            v9::ScopeDataField::NetFlowCache(b) => ("NetflowCache", b),
                            v9::ScopeDataField::Template(b) => ("Template", b),
                        };
                        json!({"name": n, "b": bytes(b)})
                    };
                    json!({"k": "odata", "id": id, "len": len,
                        "scope": d.scope_fields.iter().map(sc).collect::<Vec<_>>(),
                        "opts": d.options_fields.iter().map(|f| json!({"name": format!("{:?}", f.field_type),
                            "b": bytes(&f.field_value)})).collect::<Vec<_>>(),
                        "pad": bytes(&d.padding)})
                }
            }
        })
        .collect();
    json!({"k": "v9", "hdr": {"version": h.version as u64, "count": h.count as u64,
        "sys_up_time": bytes(&h.sys_up_time.to_be_bytes()), "unix_secs": bytes(&h.unix_secs.to_be_bytes()),
        "seq": bytes(&h.sequence_number.to_be_bytes()), "source_id": bytes(&h.source_id.to_be_bytes())},
        "sets": sets})
}

fn ipfix_fspec(f: &ipfix::TemplateField) -> Value {
    let ent = f.enterprise_number.is_some();
    let kind = if ent {
        "Vec".to_string()
    } else {
        format!("{:?}", FieldDataType::from(f.field_type))
    };
    json!({"t": f.field_type_number as u64, "len": f.field_length as u64, "ent": ent,
           "pen": f.enterprise_number.map(|e| bytes(&e.to_be_bytes())).unwrap_or(json!([])),
           "name": format!("{:?}", f.field_type), "kind": kind})
}

pub fn ipfix_template(t: &ipfix::Template) -> Value {
    json!({"id": t.template_id as u64, "count": t.field_count as u64,
           "fields": t.fields.iter().map(ipfix_fspec).collect::<Vec<_>>(), "tpad": bytes(&t.padding)})
}

pub fn ipfix_otemplate(t: &ipfix::OptionsTemplate) -> Value {
    json!({"id": t.template_id as u64, "count": t.field_count as u64,
           "scope_count": t.scope_field_count as u64,
           "fields": t.fields.iter().map(ipfix_fspec).collect::<Vec<_>>(), "tpad": bytes(&t.padding)})
}

fn ipfix_maps(
    fields: &[std::collections::BTreeMap<usize, (netflow_parser::variable_versions::ipfix_lookup::IPFixField, FieldValue)>],
    post: Post,
) -> Value {
    Value::Array(
        fields
            .iter()
            .map(|m| {
                Value::Array(
                    m.iter()
                        .map(|(idx, (ft, v))| json!({"i": *idx as u64, "name": format!("{:?}", ft), "v": val(v, post)}))
                        .collect(),
                )
            })
            .collect(),
    )
}

fn vbytes(v: &FieldValue) -> usize {
    match v {
        FieldValue::String(s) => s.len(),
        FieldValue::Vec(b) | FieldValue::Unknown(b) => b.len(),
        FieldValue::MacAddr(_) => 6,
        FieldValue::Ip6Addr(_) => 16,
        FieldValue::Float64(_) | FieldValue::Duration(_) => 8,
        FieldValue::DataNumber(DataNumber::U128(_)) => 16,
        FieldValue::DataNumber(DataNumber::U64(_)) => 8,
        FieldValue::ProtocolType(_) | FieldValue::DataNumber(DataNumber::U8(_)) => 1,
        FieldValue::DataNumber(DataNumber::U16(_)) => 2,
        _ => 4,
    }
}

fn ipfix_summary(
    k: &str,
    id: u64,
    len: u64,
    fields: &[std::collections::BTreeMap<usize, (netflow_parser::variable_versions::ipfix_lookup::IPFixField, FieldValue)>],
    pad: &[u8],
) -> Value {
    let nval: usize = fields.iter().map(|m| m.len()).sum();
    let vb: usize = fields.iter().flat_map(|m| m.values()).map(|(_, v)| vbytes(v)).sum();
    json!({"k": k, "id": id, "len": len, "nrec": fields.len() as u64, "nval": nval as u64, "vbytes": vb as u64, "pad": bytes(pad)})
}

fn ipfix_item(p: &ipfix::IPFix, post: Post) -> Value {
    let h = &p.header;
    let sets: Vec<Value> = p
        .flowsets
        .iter()
        .map(|s| {
            let id = s.header.header_id as u64;
            let len = s.header.length as u64;
            match &s.body {
                ipfix::FlowSetBody::Template(t) => json!({"k": "tmpl", "id": id, "len": len,
                    "recs": [ipfix_template(t)], "pad": bytes(&t.padding)}),
                ipfix::FlowSetBody::OptionsTemplate(t) => json!({"k": "otmpl", "id": id, "len": len,
                    "recs": [ipfix_otemplate(t)], "pad": bytes(&t.padding)}),
                ipfix::FlowSetBody::Data(d) if post.light => ipfix_summary("data", id, len, &d.fields, &d.padding),
                ipfix::FlowSetBody::OptionsData(d) if post.light => ipfix_summary("odata", id, len, &d.fields, &d.padding),
                ipfix::FlowSetBody::Data(d) => json!({"k": "data", "id": id, "len": len,
                    "maps": ipfix_maps(&d.fields, post), "pad": bytes(&d.padding)}),
                ipfix::FlowSetBody::OptionsData(d) => json!({"k": "odata", "id": id, "len": len,
                    "maps": ipfix_maps(&d.fields, post), "pad": bytes(&d.padding)}),
            }
        })
        .collect();
    json!({"k": "ipfix", "hdr": {"version": h.version as u64, "length": h.length as u64,
        "export_time": bytes(&h.export_time.to_be_bytes()), "seq": bytes(&h.sequence_number.to_be_bytes()),
        "domain": bytes(&h.observation_domain_id.to_be_bytes())}, "sets": sets})
}

fn err_item(e: &netflow_parser::NetflowPacketError) -> Value {
    let (kind, ver, inner, msg): (&str, u64, Vec<u8>, String) = match &e.error {
        NetflowParseError::Incomplete(s) => ("Incomplete", 0, vec![], s.clone()),
        NetflowParseError::Partial(p) => ("Partial", p.version as u64, p.remaining.clone(), p.error.clone()),
        NetflowParseError::UnallowedVersion(v) => ("UnallowedVersion", *v as u64, vec![], String::new()),
        NetflowParseError::UnknownVersion(b) => ("UnknownVersion", 0, b.clone(), String::new()),
    };
    let _ = msg;
    json!({"k": "err", "kind": kind, "ver": ver, "rem": bytes(&e.remaining), "inner": bytes(&inner)})
}

fn opt_ip(ip: &Option<IpAddr>) -> Value {
    match ip {
        Some(IpAddr::V4(a)) => bytes(&a.octets()),
        Some(IpAddr::V6(a)) => bytes(&a.octets()),
        None => json!([]),
    }
}

pub fn flow(f: &NetflowCommonFlowSet) -> Value {
    let mac = |m: &Option<String>| -> Value {
        match m {
            Some(s) => bytes(&mac_bytes(s).1),
            None => json!([]),
        }
    };
    json!({
        "src": opt_ip(&f.src_addr), "dst": opt_ip(&f.dst_addr),
        "sp": f.src_port.map(|x| bytes(&x.to_be_bytes())).unwrap_or(json!([])),
        "dp": f.dst_port.map(|x| bytes(&x.to_be_bytes())).unwrap_or(json!([])),
        "proto": f.protocol_number.map(|x| bytes(&[x])).unwrap_or(json!([])),
        "pname": f.protocol_type.map(|p: ProtocolTypes| norm(&format!("{:?}", p))).unwrap_or_default(),
        "first": f.first_seen.map(|x| bytes(&x.to_be_bytes())).unwrap_or(json!([])),
        "last": f.last_seen.map(|x| bytes(&x.to_be_bytes())).unwrap_or(json!([])),
        "smac": mac(&f.src_mac), "dmac": mac(&f.dst_mac),
    })
}

fn common_of(p: &NetflowPacket) -> Value {
    match catch_unwind(AssertUnwindSafe(|| p.as_netflow_common())) {
        Ok(Ok(c)) => json!({"st": "ok", "version": c.version as u64, "ts": bytes(&c.timestamp.to_be_bytes()),
            "flows": c.flowsets.iter().map(flow).collect::<Vec<_>>()}),
        Ok(Err(_)) => json!({"st": "err", "version": 0, "ts": [], "flows": []}),
        Err(_) => json!({"st": "panic", "version": 0, "ts": [], "flows": []}),
    }
}

fn export_of(p: &NetflowPacket) -> Value {
    let r = catch_unwind(AssertUnwindSafe(|| -> Result<Vec<u8>, String> {
        match p {
            NetflowPacket::V5(x) => Ok(x.to_be_bytes()),
            NetflowPacket::V7(x) => Ok(x.to_be_bytes()),
            NetflowPacket::V9(x) => x.to_be_bytes().map_err(|e| e.to_string()),
            NetflowPacket::IPFix(x) => x.to_be_bytes().map_err(|e| e.to_string()),
            NetflowPacket::Error(_) => Err("n/a".to_string()),
        }
    }));
    match r {
        Ok(Ok(b)) => json!({"st": "ok", "bytes": bytes(&b)}),
        Ok(Err(e)) if e == "n/a" => json!({"st": "na", "bytes": []}),
        Ok(Err(_)) => json!({"st": "err", "bytes": []}),
        Err(_) => json!({"st": "panic", "bytes": []}),
    }
}

/// Per-set export: the packet's header followed by that set alone (all fields are public and
/// Clone), so that a difference can be attributed to one set without guessing alignment.
fn set_exports(p: &NetflowPacket) -> Value {
    let one = |q: NetflowPacket, hdr: usize| -> Value {
        match export_of(&q) {
            Value::Object(m) if m.get("st") == Some(&json!("ok")) => {
                let b = m.get("bytes").and_then(|b| b.as_array()).cloned().unwrap_or_default();
                json!({"st": "ok", "bytes": b.into_iter().skip(hdr).collect::<Vec<_>>()})
            }
            v => v,
        }
    };
    match p {
        NetflowPacket::V9(x) => Value::Array(
            x.flowsets
                .iter()
                .map(|s| {
                    let q = v9::V9 { header: x.header, flowsets: vec![s.clone()] };
                    one(NetflowPacket::V9(q), 20)
                })
                .collect(),
        ),
        NetflowPacket::IPFix(x) => Value::Array(
            x.flowsets
                .iter()
                .map(|s| {
                    let q = ipfix::IPFix { header: x.header, flowsets: vec![s.clone()] };
                    one(NetflowPacket::IPFix(q), 16)
                })
                .collect(),
        ),
        _ => json!([]),
    }
}

/// does the packet mention a field type the library has no data type for (a template field of such a type, or a
/// data value decoded under one)?  Enterprise-specific IPFIX fields are opaque bytes in every build and do not count.
/// Used only to select which items the feature-off build must reproduce exactly (C17, spec/TraceEq.tla).
fn mentions_unknown(p: &NetflowPacket) -> bool {
    let unk = |d: FieldDataType| d == FieldDataType::Unknown;
    match p {
        NetflowPacket::V9(x) => x.flowsets.iter().any(|s| match &s.body {
            v9::FlowSetBody::Template(t) => t.templates.iter().any(|t| t.fields.iter().any(|f| unk(FieldDataType::from(f.field_type)))),
            v9::FlowSetBody::OptionsTemplate(t) => {
                t.templates.iter().any(|t| t.option_fields.iter().any(|f| unk(FieldDataType::from(f.field_type))))
            }
            v9::FlowSetBody::Data(d) => d.fields.iter().any(|rec| rec.values().any(|(ft, _)| unk(FieldDataType::from(*ft)))),
            _ => false,
        }),
        NetflowPacket::IPFix(x) => x.flowsets.iter().any(|s| match &s.body {
            ipfix::FlowSetBody::Template(t) => {
                t.fields.iter().any(|f| f.enterprise_number.is_none() && unk(FieldDataType::from(f.field_type)))
            }
            ipfix::FlowSetBody::OptionsTemplate(t) => {
                t.fields.iter().any(|f| f.enterprise_number.is_none() && unk(FieldDataType::from(f.field_type)))
            }
            ipfix::FlowSetBody::Data(d) => d.fields.iter().any(|m| m.values().any(|(ft, _)| unk(FieldDataType::from(*ft)))),
            ipfix::FlowSetBody::OptionsData(d) => d.fields.iter().any(|m| m.values().any(|(ft, _)| unk(FieldDataType::from(*ft)))),
            #[allow(unreachable_patterns)]
            _ => false,
        }),
        _ => false,
    }
}

pub fn item(p: &NetflowPacket, post: Post) -> Value {
    let unk = mentions_unknown(p);
    let mut v = match p {
        NetflowPacket::V5(x) => v5_item(x),
        NetflowPacket::V7(x) => v7_item(x),
        NetflowPacket::V9(x) => v9_item(x, post),
        NetflowPacket::IPFix(x) => ipfix_item(x, post),
        NetflowPacket::Error(e) => err_item(e),
    };
    let m: &mut Map<String, Value> = v.as_object_mut().unwrap();
    m.insert("unk".into(), json!(unk));
    if post.export {
        m.insert("exp".into(), export_of(p));
        m.insert("sexp".into(), set_exports(p));
    } else if post.export1 {
        m.insert("exp".into(), export_of(p));
        m.insert("sexp".into(), json!([]));
    } else {
        m.insert("exp".into(), json!({"st": "off", "bytes": []}));
        m.insert("sexp".into(), json!([]));
    }
    if post.common {
        m.insert("common".into(), common_of(p));
    } else {
        m.insert("common".into(), json!({"st": "off", "version": 0, "ts": [], "flows": []}));
    }
    v
}

pub fn cache(p: &NetflowParser) -> Value {
    let mut v9d: Vec<(u16, Value)> =
        p.v9_parser.templates.iter().map(|(id, t)| (*id, v9_template(t))).collect();
    v9d.sort_by_key(|x| x.0);
    let mut v9o: Vec<(u16, Value)> =
        p.v9_parser.options_templates.iter().map(|(id, t)| (*id, v9_otemplate(t))).collect();
    v9o.sort_by_key(|x| x.0);
    let ixd: Vec<(u16, Value)> =
        p.ipfix_parser.templates.iter().map(|(id, t)| (*id, ipfix_template(t))).collect();
    let ixo: Vec<(u16, Value)> =
        p.ipfix_parser.options_templates.iter().map(|(id, t)| (*id, ipfix_otemplate(t))).collect();
    let arr = |v: Vec<(u16, Value)>| -> Value {
        Value::Array(v.into_iter().map(|(id, t)| json!({"key": id as u64, "def": t})).collect())
    };
    json!({"v9": {"data": arr(v9d), "opts": arr(v9o)}, "ipfix": {"data": arr(ixd), "opts": arr(ixo)}})
}

pub fn allowed(p: &NetflowParser) -> Value {
    let mut a: Vec<u16> = p.allowed_versions.iter().cloned().collect();
    a.sort();
    Value::Array(a.into_iter().map(|x| Value::from(x as u64)).collect())
}
