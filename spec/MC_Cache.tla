------------------------------ MODULE MC_Cache ------------------------------
(***************************************************************************)
(* Bounded model for the template-cache properties (C06, C07; cache        *)
(* clauses of C11, C12, C14): two parser instances, V9 and IPFIX at once,  *)
(* two template ids, definitions, redefinitions with a different field     *)
(* list, redefinition as the other kind, several records per set, data     *)
(* before / after its template, unknown ids, fixed-format packets, garbage,*)
(* a cut template record, disallowed versions.                             *)
(*                                                                         *)
(* Each alphabet packet is built by the encoders from a descriptor, and    *)
(* carries - from its construction, not from decoding it - the list of     *)
(* abstract tokens it stands for.  The history variable `want` applies the *)
(* tokens; CacheIsLatest states that the byte-level machine holds exactly  *)
(* what the token-level history says it should.                            *)
(***************************************************************************)
EXTENDS Netflow, Json

CONSTANT Depth2,       \* TRUE: also offer two-packet buffers
         Life,         \* "off", or "v9" / "ipfix": the life-cycle alphabet of one template id (below)
         LifeLetters   \* how many letters of that alphabet are offered

B4(a) == <<a, a + 1, a + 2, a + 3>>
H9 == [sys_up_time |-> B4(1), unix_secs |-> B4(5), seq |-> B4(9), source_id |-> B4(13)]
HX == [export_time |-> B4(1), seq |-> B4(5), domain |-> B4(9)]
FA == << Spec9(1, 4), Spec9(8, 4) >>
FB == << Spec9(7, 2) >>
FC == << Spec9(12, 4), Spec9(7, 2) >>          \* as many fields as FA, different types and sizes
T(id, fs) == [id |-> id, count |-> Len(fs), fields |-> fs]
OT9(id) == [id |-> id, scope_len |-> 4, opt_len |-> 4, scope |-> <<Spec9(1, 2)>>, opts |-> <<Spec9(2, 2)>>]
OTX(id) == [id |-> id, count |-> 2, scope_count |-> 1, fields |-> <<Spec9(5, 1), Spec9(6, 1)>>]
Body8 == <<11, 12, 13, 14, 15, 16, 17, 18>>     \* one FA record / four FB records / two option records

Def(pr, kd, d) == [t |-> "def", proto |-> pr, kind |-> kd, def |-> d]
Data(pr, id)   == [t |-> "data", proto |-> pr, id |-> id]
Nop(v)         == [t |-> "nop", ver |-> v]
Stop(v)        == [t |-> "stop", ver |-> v]
V(n) == [t |-> "ver", ver |-> n]       \* start of a packet of version n

BaseItems ==
 << [b |-> EncV9Hdr(1, H9) \o EncV9TmplSet(<<T(256, FA)>>, <<>>),              toks |-> <<V(9), Def("v9", "data", T(256, FA))>>],
    [b |-> EncV9Hdr(1, H9) \o EncV9TmplSet(<<T(256, FB)>>, <<0, 0>>),          toks |-> <<V(9), Def("v9", "data", T(256, FB))>>],
    [b |-> EncV9Hdr(1, H9) \o EncV9TmplSet(<<T(256, FC)>>, <<>>),              toks |-> <<V(9), Def("v9", "data", T(256, FC))>>],
    [b |-> EncIpfixMsg(HX, <<EncIpfixTmplSet(<<T(256, FC)>>, <<>>)>>),         toks |-> <<V(10), Def("ipfix", "data", T(256, FC))>>],
    [b |-> EncV9Hdr(1, H9) \o EncV9TmplSet(<<T(256, FA), T(257, FB)>>, <<>>),  toks |-> <<V(9), Def("v9", "data", T(256, FA)), Def("v9", "data", T(257, FB))>>],
    [b |-> EncV9Hdr(1, H9) \o EncV9OtmplSet(<<OT9(256)>>, <<>>),               toks |-> <<V(9), Def("v9", "opts", OT9(256))>>],
    [b |-> EncV9Hdr(2, H9) \o EncV9TmplSet(<<T(257, FA)>>, <<>>) \o EncSet(257, Body8),
                                                                              toks |-> <<V(9), Def("v9", "data", T(257, FA)), Data("v9", 257)>>],
    [b |-> EncV9Hdr(1, H9) \o EncSet(256, Body8),                              toks |-> <<V(9), Data("v9", 256)>>],
    \* (re)definition and data for the same id in one packet: define -> data -> redefine -> data in two calls
    [b |-> EncV9Hdr(2, H9) \o EncV9TmplSet(<<T(256, FA)>>, <<>>) \o EncSet(256, Body8),
                                                                              toks |-> <<V(9), Def("v9", "data", T(256, FA)), Data("v9", 256)>>],
    [b |-> EncV9Hdr(2, H9) \o EncV9TmplSet(<<T(256, FB)>>, <<>>) \o EncSet(256, Body8),
                                                                              toks |-> <<V(9), Def("v9", "data", T(256, FB)), Data("v9", 256)>>],
    [b |-> EncIpfixMsg(HX, <<EncIpfixTmplSet(<<T(256, FA)>>, <<>>), EncSet(256, Body8)>>),
                                                                              toks |-> <<V(10), Def("ipfix", "data", T(256, FA)), Data("ipfix", 256)>>],
    [b |-> EncIpfixMsg(HX, <<EncIpfixTmplSet(<<T(256, FB)>>, <<>>), EncSet(256, Body8)>>),
                                                                              toks |-> <<V(10), Def("ipfix", "data", T(256, FB)), Data("ipfix", 256)>>],
    [b |-> EncV9Hdr(2, H9) \o EncSet(300, Body8) \o EncV9TmplSet(<<T(257, FA)>>, <<>>),
                                                                              toks |-> <<V(9), Data("v9", 300), Def("v9", "data", T(257, FA))>>],
    [b |-> SubSeq(EncV9Hdr(1, H9) \o EncV9TmplSet(<<T(257, FA)>>, <<>>), 1, 30), toks |-> <<V(9), Stop(9)>>],     \* template record cut
    \* a template flowset whose length ends inside its second record: only the complete record counts
    [b |-> EncV9Hdr(1, H9) \o EncSet(0, EncV9TmplRec(T(257, FB)) \o SubSeq(EncV9TmplRec(T(256, FC)), 1, 8)),
                                                                              toks |-> <<V(9), Def("v9", "data", T(257, FB))>>],
    \* data flowsets that are nothing but their header, for an id nobody defined
    [b |-> EncV9Hdr(1, H9) \o EncSet(300, <<>>),                               toks |-> <<V(9), Data("v9", 300)>>],
    [b |-> EncIpfixMsg(HX, <<EncSet(300, <<>>), EncIpfixTmplSet(<<T(257, FA)>>, <<>>)>>),
                                                                              toks |-> <<V(10), Data("ipfix", 300), Def("ipfix", "data", T(257, FA))>>],
    [b |-> EncIpfixMsg(HX, <<EncIpfixTmplSet(<<T(256, FA)>>, <<>>)>>),         toks |-> <<V(10), Def("ipfix", "data", T(256, FA))>>],
    [b |-> EncIpfixMsg(HX, <<EncIpfixTmplSet(<<T(256, FB)>>, <<>>)>>),         toks |-> <<V(10), Def("ipfix", "data", T(256, FB))>>],
    [b |-> EncIpfixMsg(HX, <<EncIpfixTmplSet(<<T(257, FA), T(256, FB)>>, <<>>)>>),
                                                                              toks |-> <<V(10), Def("ipfix", "data", T(257, FA)), Def("ipfix", "data", T(256, FB))>>],
    [b |-> EncIpfixMsg(HX, <<EncIpfixOtmplSet(<<OTX(256)>>, <<>>)>>),          toks |-> <<V(10), Def("ipfix", "opts", OTX(256))>>],
    [b |-> EncIpfixMsg(HX, <<EncIpfixOtmplSet(<<OTX(257), OTX(256)>>, <<>>)>>),
                                                                              toks |-> <<V(10), Def("ipfix", "opts", OTX(257)), Def("ipfix", "opts", OTX(256))>>],
    [b |-> EncIpfixMsg(HX, <<EncIpfixTmplSet(<<T(257, FB)>>, <<>>), EncSet(257, Body8)>>),
                                                                              toks |-> <<V(10), Def("ipfix", "data", T(257, FB)), Data("ipfix", 257)>>],
    [b |-> EncIpfixMsg(HX, <<EncSet(256, Body8)>>),                            toks |-> <<V(10), Data("ipfix", 256)>>],
    [b |-> EncIpfixMsg(HX, <<EncSet(300, Body8), EncIpfixTmplSet(<<T(257, FA)>>, <<>>)>>),
                                                                              toks |-> <<V(10), Data("ipfix", 300), Def("ipfix", "data", T(257, FA))>>],
    [b |-> SubSeq(EncIpfixMsg(HX, <<EncIpfixTmplSet(<<T(257, FA)>>, <<>>)>>), 1, 30), toks |-> <<V(10), Stop(10)>>],   \* message cut
    \* template records the implementation rejects (no field has a length): nothing may change
    [b |-> EncIpfixMsg(HX, <<EncIpfixTmplSet(<<T(256, <<>>)>>, <<>>)>>),        toks |-> <<V(10), Nop(10)>>],
    [b |-> EncIpfixMsg(HX, <<EncIpfixTmplSet(<<T(256, <<Spec9(94, 0)>>)>>, <<>>)>>), toks |-> <<V(10), Nop(10)>>],
    [b |-> EncIpfixMsg(HX, <<EncIpfixOtmplSet(<<[id |-> 256, count |-> 1, scope_count |-> 1, fields |-> <<Spec9(5, 0)>>]>>, <<>>)>>),
                                                                              toks |-> <<V(10), Nop(10)>>],
    [b |-> <<0, 5, 0, 0>> \o B4(1) \o B4(2) \o B4(3) \o B4(4) \o B4(5),        toks |-> <<V(5), Nop(5)>>],
    [b |-> <<0, 1, 0, 0, 1, 0, 0, 2>>,                                          toks |-> <<V(1), Stop(1)>>] >>

(***************************************************************************)
(* The life cycle of ONE template id of ONE protocol: defined (8-byte      *)
(* records), redefined with as many fields but shorter records, redefined  *)
(* as an options template (two shapes), refreshed, used by a data set that *)
(* holds a different number of records under each definition.  With the    *)
(* history kept in the VIEW (LifeView) TLC enumerates EVERY sequence of    *)
(* MaxCalls such packets, not every (cache, packet) pair once: a sequence  *)
(* such as  define, data, redefine as options, define shorter, data  is a  *)
(* behaviour of its own, and becomes a vector of its own, although its     *)
(* cache states were all met before.  An implementation that keeps state   *)
(* of its own per template id (a memoised record size, a decoder table)    *)
(* goes wrong only on particular such sequences.                           *)
(***************************************************************************)
Body12 == <<11, 12, 13, 14, 15, 16, 17, 18, 19, 20, 21, 22>>
OT9b(id) == [id |-> id, scope_len |-> 4, opt_len |-> 8, scope |-> <<Spec9(1, 4)>>, opts |-> <<Spec9(2, 4), Spec9(10, 2)>>]
OTXb(id) == [id |-> id, count |-> 1, scope_count |-> 1, fields |-> <<Spec9(8, 4)>>]
LifeItems ==
  IF Life = "v9" THEN
   << [b |-> EncV9Hdr(1, H9) \o EncV9TmplSet(<<T(256, FA)>>, <<>>),     toks |-> <<V(9), Def("v9", "data", T(256, FA))>>],
      [b |-> EncV9Hdr(1, H9) \o EncV9TmplSet(<<T(256, FC)>>, <<>>),     toks |-> <<V(9), Def("v9", "data", T(256, FC))>>],
      [b |-> EncV9Hdr(1, H9) \o EncV9OtmplSet(<<OT9(256)>>, <<>>),      toks |-> <<V(9), Def("v9", "opts", OT9(256))>>],
      [b |-> EncV9Hdr(1, H9) \o EncSet(256, Body12),                    toks |-> <<V(9), Data("v9", 256)>>],
      [b |-> EncV9Hdr(1, H9) \o EncV9OtmplSet(<<OT9b(256)>>, <<>>),     toks |-> <<V(9), Def("v9", "opts", OT9b(256))>>],
      [b |-> EncV9Hdr(1, H9) \o EncV9TmplSet(<<T(256, FB)>>, <<0, 0>>), toks |-> <<V(9), Def("v9", "data", T(256, FB))>>],
      [b |-> EncV9Hdr(2, H9) \o EncV9TmplSet(<<T(256, FA)>>, <<>>) \o EncSet(256, Body12),
                                                                        toks |-> <<V(9), Def("v9", "data", T(256, FA)), Data("v9", 256)>>] >>
  ELSE
   << [b |-> EncIpfixMsg(HX, <<EncIpfixTmplSet(<<T(256, FA)>>, <<>>)>>),   toks |-> <<V(10), Def("ipfix", "data", T(256, FA))>>],
      [b |-> EncIpfixMsg(HX, <<EncIpfixTmplSet(<<T(256, FC)>>, <<>>)>>),   toks |-> <<V(10), Def("ipfix", "data", T(256, FC))>>],
      [b |-> EncIpfixMsg(HX, <<EncIpfixOtmplSet(<<OTX(256)>>, <<>>)>>),    toks |-> <<V(10), Def("ipfix", "opts", OTX(256))>>],
      [b |-> EncIpfixMsg(HX, <<EncSet(256, Body12)>>),                     toks |-> <<V(10), Data("ipfix", 256)>>],
      [b |-> EncIpfixMsg(HX, <<EncIpfixOtmplSet(<<OTXb(256)>>, <<>>)>>),   toks |-> <<V(10), Def("ipfix", "opts", OTXb(256))>>],
      [b |-> EncIpfixMsg(HX, <<EncIpfixTmplSet(<<T(256, FB)>>, <<>>)>>),   toks |-> <<V(10), Def("ipfix", "data", T(256, FB))>>],
      [b |-> EncIpfixMsg(HX, <<EncIpfixTmplSet(<<T(256, FA)>>, <<>>), EncSet(256, Body12)>>),
                                                                          toks |-> <<V(10), Def("ipfix", "data", T(256, FA)), Data("ipfix", 256)>>] >>
LifeData == 4        \* the letter that observes: a data set for the id
Items == IF Life = "off" THEN BaseItems ELSE SubSeq(LifeItems, 1, LifeLetters)
NI == Len(Items)

Singles == {<<i>> : i \in 1..NI}
Pairs   == IF Depth2 THEN {<<i, j>> : i \in {1, 3, 7, 8, 9, 11, 16, 17, 18, 20}, j \in {1, 2, 3, 8, 11, 12, 17}} ELSE {}
Scripts == Singles \cup Pairs
BytesOf(sc) == Flatten([i \in 1..Len(sc) |-> Items[sc[i]].b])
ToksOf(sc)  == Flatten([i \in 1..Len(sc) |-> Items[sc[i]].toks])
MCBuffers == {BytesOf(sc) : sc \in Scripts}
TokensOf(b) == ToksOf(CHOOSE sc \in Scripts : BytesOf(sc) = b)
MCAllowedSets == IF Life = "off" THEN {{5, 7, 9, 10}, {5, 7, 9}, {5, 10}} ELSE {{5, 7, 9, 10}}

-----------------------------------------------------------------------------
\* token-level semantics of one call
ApplyTokens(tm, toks, allow) ==
  LET step(acc, tk) ==
        IF acc.done THEN acc
        ELSE CASE tk.t = "ver"  -> IF tk.ver \in allow THEN acc ELSE [acc EXCEPT !.done = TRUE]
               [] tk.t = "def"  -> [acc EXCEPT !.tm[tk.proto] = PutRecs(acc.tm[tk.proto], tk.kind, <<tk.def>>)]
               [] tk.t = "data" -> IF tk.id \in IdsOfC(acc.tm[tk.proto]) \/ tk.proto = "ipfix" THEN acc
                                   ELSE [acc EXCEPT !.done = TRUE]       \* V9: the packet is an error, the call ends
               [] tk.t = "stop" -> [acc EXCEPT !.done = TRUE]
               [] OTHER -> acc
  IN FoldLeft(step, [tm |-> tm, done |-> FALSE], toks).tm

VARIABLE want         \* [Parsers -> caches] according to the token-level history
mcvars == <<vars, want>>
MCInit == Init /\ want = [p \in Parsers |-> EmptyTm]
MCNext == /\ Next
          /\ want' = IF ~InCall /\ call'.p # "none"
                       THEN [want EXCEPT ![call'.p] = ApplyTokens(@, TokensOf(call'.buf), allowed[call'.p])]
                       ELSE want
MCSpec == MCInit /\ [][MCNext]_mcvars /\ WF_mcvars(Step)
MCView == <<View, want>>

\* C06: the caches hold the most recent definition of every id, of every protocol, of every parser
CacheIsLatest == ~InCall => \A p \in Parsers : tmpl[p] = want[p]

\* IPFIX: when two records of one set redefine... (ideal model: both are cached)
EmitVector == (InCall /\ call'.p = "none") => PrintT("VEC~~" \o ToJson(hist))
\* life-cycle runs: every history is a state of its own; one vector per complete history that ends in a data set
LifeView == <<MCView, hist>>
EmitLife == (InCall /\ call'.p = "none" /\ ncalls = MaxCalls /\ hist[Len(hist)].buf = Items[LifeData].b)
              => PrintT("VEC~~" \o ToJson(hist))
=============================================================================
