------------------------------- MODULE Netflow -------------------------------
(***************************************************************************)
(* The transition system of netflow_parser: several parser instances, each *)
(* with its template caches and its allowed-version set; one public        *)
(* operation, parse_bytes(buf), modelled at the grain at which the code    *)
(* works: dispatch on the version field, a V5/V7 packet, a V9 header, one  *)
(* V9 flowset, an IPFIX header, one IPFIX set, end of packet, return.      *)
(*                                                                         *)
(* Every action is a thin wrapper around a pure step function of the       *)
(* modules Run / V9 / Ipfix; the trace specification composes the same     *)
(* functions between a `call` and its `ret` event (RunCall), and the       *)
(* invariant MicroEqualsMacro shows both give the same result.             *)
(*                                                                         *)
(* The caches are written only by the two template branches of the set     *)
(* steps - which is what makes the cache rules of C06/C07/C12/C14 action   *)
(* properties that TLC checks, rather than true by construction of one     *)
(* monolithic function.                                                    *)
(***************************************************************************)
EXTENDS Run, TLC

CONSTANTS Parsers,      \* parser instances
          Buffers,      \* the buffers the environment may submit (sequences of bytes)
          AllowedSets,  \* the allowed-version sets the environment may install
          MaxCalls,     \* call budget (state constraint of the bounded models)
          Devs          \* named deviations in force ({} = the ideal model)

VARIABLES tmpl,      \* [Parsers -> [v9 |-> cache, ipfix |-> cache]]
          allowed,   \* [Parsers -> SUBSET Nat]
          call,      \* NoCall, or the parse_bytes call in flight
          ncalls,    \* number of calls made so far
          hist       \* the operation script so far (vector emission; hidden by VIEW)
vars == <<tmpl, allowed, call, ncalls, hist>>

NoCall == [p |-> "none"]
NoSub  == [kind |-> "none"]
InCall == call.p # "none"

Init == /\ tmpl = [p \in Parsers |-> EmptyTm]
        /\ allowed = [p \in Parsers |-> Known]
        /\ call = NoCall
        /\ ncalls = 0
        /\ hist = <<>>

-----------------------------------------------------------------------------
\* Environment
SetAllowed(p, S) == /\ ~InCall /\ allowed[p] # S
                    /\ allowed' = [allowed EXCEPT ![p] = S]
                    /\ hist' = Append(hist, [op |-> "allow", p |-> p, allowed |-> S])
                    /\ UNCHANGED <<tmpl, call, ncalls>>

Call(p, b) == /\ ~InCall /\ ncalls < MaxCalls
              /\ call' = [p |-> p, buf |-> b, cs |-> CallStart(tmpl[p]), sub |-> NoSub, tm0 |-> tmpl[p]]
              /\ ncalls' = ncalls + 1
              /\ hist' = Append(hist, [op |-> "call", p |-> p, buf |-> b])
              /\ UNCHANGED <<tmpl, allowed>>

-----------------------------------------------------------------------------
\* Steps inside a call.  `cs` is the call state of module Run; `sub` the packet in progress.
Running == InCall /\ call.cs.status = "run"
AtTop   == Running /\ call.sub.kind = "none"
NextVer == U16At(call.buf, call.cs.pos)
Dispatchable(v) == AtTop /\ Avail(call.buf, call.cs.pos) >= 2 /\ NextVer = v /\ v \in allowed[call.p]

\* everything TopStep decides by itself: end of buffer, 1 byte left, version not allowed,
\* unknown version, a V5 / V7 packet (complete or cut)
StepTop ==
  /\ AtTop
  /\ ~(Dispatchable(9) \/ Dispatchable(10))
  /\ call' = [call EXCEPT !.cs = TopStep(call.buf, call.cs, allowed[call.p], Devs)]
  /\ UNCHANGED <<tmpl, allowed, ncalls, hist>>

StepV9Header ==
  /\ Dispatchable(9)
  /\ call' = [call EXCEPT !.sub = [kind |-> "v9", start |-> call.cs.pos,
                                    st |-> V9Start(call.buf, call.cs.pos, call.cs.tm.v9)]]
  /\ UNCHANGED <<tmpl, allowed, ncalls, hist>>

\* one flowset; a template / options-template flowset writes the cache
StepV9Flowset ==
  /\ Running /\ call.sub.kind = "v9" /\ call.sub.st.status = "run"
  /\ LET st2 == V9SetStep(call.buf, call.sub.st, Devs) IN
       /\ call' = [call EXCEPT !.sub.st = st2, !.cs.tm.v9 = st2.c]
       /\ tmpl' = [tmpl EXCEPT ![call.p].v9 = st2.c]
  /\ UNCHANGED <<allowed, ncalls, hist>>

StepV9End ==
  /\ Running /\ call.sub.kind = "v9" /\ call.sub.st.status # "run"
  /\ LET st == call.sub.st  b == call.buf  pos == call.sub.start IN
       call' = [call EXCEPT
                  !.sub = NoSub,
                  !.cs = IF st.status = "ok"
                           THEN [call.cs EXCEPT !.out = Append(@, [k |-> "v9", s |-> pos, e |-> st.pos - 1,
                                                                   hdr |-> V9Hdr(b, pos), sets |-> st.sets]),
                                                !.pos = st.pos, !.used = @ \cup st.used]
                           ELSE [call.cs EXCEPT !.out = Append(@, [k |-> "err", kind |-> "Partial", ver |-> 9, s |-> pos,
                                                                   rem |-> Rest(b, pos), sets |-> st.sets, why |-> st.why]),
                                                !.status = "done", !.stop = "error", !.used = @ \cup st.used]]
  /\ UNCHANGED <<tmpl, allowed, ncalls, hist>>

IpfixFits == Avail(call.buf, call.cs.pos) >= 16 /\ Avail(call.buf, call.cs.pos) >= Max2(U16At(call.buf, call.cs.pos + 2), 16)

StepIpfixHeader ==
  /\ Dispatchable(10)
  /\ IF IpfixFits
       THEN LET pos == call.cs.pos  L == Max2(U16At(call.buf, pos + 2), 16) IN
            call' = [call EXCEPT !.sub = [kind |-> "ipfix", start |-> pos,
                                          st |-> [pos |-> pos + 16, me |-> pos + L - 1, sets |-> <<>>, c |-> call.cs.tm.ipfix,
                                                  status |-> "run", used |-> {}, dropped |-> <<>>, left |-> 0]]]
       ELSE call' = [call EXCEPT !.cs = TopStep(call.buf, call.cs, allowed[call.p], Devs)]   \* message cut: error
  /\ UNCHANGED <<tmpl, allowed, ncalls, hist>>

StepIpfixSet ==
  /\ Running /\ call.sub.kind = "ipfix" /\ call.sub.st.status = "run"
  /\ LET st2 == IpfixSetStep(call.buf, call.sub.st, Devs) IN
       /\ call' = [call EXCEPT !.sub.st = st2, !.cs.tm.ipfix = st2.c]
       /\ tmpl' = [tmpl EXCEPT ![call.p].ipfix = st2.c]
  /\ UNCHANGED <<allowed, ncalls, hist>>

StepIpfixEnd ==
  /\ Running /\ call.sub.kind = "ipfix" /\ call.sub.st.status # "run"
  /\ LET st == call.sub.st  b == call.buf  pos == call.sub.start IN
       call' = [call EXCEPT
                  !.sub = NoSub,
                  !.cs = [call.cs EXCEPT !.out = Append(@, [k |-> "ipfix", s |-> pos, e |-> st.me, hdr |-> IpfixHdr(b, pos),
                                                           sets |-> st.sets, dropped |-> st.dropped, left |-> st.left]),
                                         !.pos = st.me + 1, !.used = @ \cup st.used]]
  /\ UNCHANGED <<tmpl, allowed, ncalls, hist>>

Return ==
  /\ InCall /\ call.cs.status = "done"
  /\ call' = NoCall
  /\ UNCHANGED <<tmpl, allowed, ncalls, hist>>

Step == StepTop \/ StepV9Header \/ StepV9Flowset \/ StepV9End \/ StepIpfixHeader \/ StepIpfixSet \/ StepIpfixEnd \/ Return
\* (the guards stand outside the quantifiers so that TLC does not enumerate Buffers inside a call)
Env  == /\ ~InCall
        /\ \/ ncalls < MaxCalls /\ \E p \in Parsers, b \in Buffers : Call(p, b)
           \/ ncalls < MaxCalls /\ \E p \in Parsers, S \in AllowedSets : SetAllowed(p, S)
Next == Step \/ Env
Spec == Init /\ [][Next]_vars /\ WF_vars(Step)

View == <<tmpl, allowed, call, ncalls>>

-----------------------------------------------------------------------------
(***************************************************************************)
(* Properties of the model                                                 *)
(***************************************************************************)
\* C01 (design level): inside a call some step is always enabled, and every call returns.
Total == InCall => ENABLED Step
Terminates == InCall ~> ~InCall

\* the progress measure behind termination: unread bytes, then the V9 flowset budget
Measure == IF ~InCall \/ call.cs.status # "run" THEN 0
           ELSE LET K == 2 * Len(call.buf) + 4 IN
                IF call.sub.kind = "none" THEN Avail(call.buf, call.cs.pos) * K + K - 1
                ELSE Avail(call.buf, call.cs.pos) * K + 2 * Avail(call.buf, call.sub.st.pos)
                       + (IF call.sub.st.status = "run" THEN 1 ELSE 0)
Progress == [][(InCall /\ call.cs.status = "run" /\ call' # call) => Measure' < Measure]_vars

\* C02: the items produced so far tile a prefix of the buffer, an error is last and carries the suffix
Tiles(b, out) ==
  /\ \A i \in 1..Len(out) : out[i].s = (IF i = 1 THEN 1 ELSE out[i - 1].e + 1)
  /\ \A i \in 1..Len(out) : out[i].k = "err" => i = Len(out) /\ out[i].rem = Rest(b, out[i].s)
  /\ \A i \in 1..Len(out) : out[i].k # "err" => out[i].e <= Len(b) /\ U16At(b, out[i].s) = (CASE out[i].k = "v5" -> 5 [] out[i].k = "v7" -> 7 [] out[i].k = "v9" -> 9 [] OTHER -> 10)
\* the call that is about to return, as an observation: everything the properties speak about
Done == InCall /\ call.cs.status = "done"
Obs  == [buf |-> call.buf, out |-> call.cs.out, allow |-> allowed[call.p], stop |-> call.cs.stop, tm0 |-> call.tm0]

AccountingOf(o) ==
  LET n == Len(o.out)
      used == IF n = 0 THEN 0 ELSE IF o.out[n].k = "err" THEN o.out[n].s - 1 ELSE o.out[n].e IN
  /\ Tiles(o.buf, o.out)
  /\ (o.buf = <<>> => o.out = <<>>)
  /\ \/ (n > 0 /\ o.out[n].k = "err")
     \/ used = Len(o.buf)
     \/ (Len(o.buf) - used >= 2 /\ U16At(o.buf, used + 1) \notin o.allow)
AccountingInv == /\ InCall => Tiles(call.buf, call.cs.out)
                 /\ Done => AccountingOf(Obs)

\* the micro-step model and the composed function used for trace validation agree
MicroEqualsMacro ==
  Done => LET r == RunCall(call.buf, call.tm0, allowed[call.p], Devs) IN
          r.out = call.cs.out /\ r.stop = call.cs.stop /\ r.tm = call.cs.tm /\ tmpl[call.p] = call.cs.tm

\* C06: action properties of the caches
IdsOfC(c) == DOMAIN c.data \cup DOMAIN c.opts
NeverEvicted == [][\A p \in Parsers : \A pr \in {"v9", "ipfix"} : IdsOfC(tmpl[p][pr]) \subseteq IdsOfC(tmpl'[p][pr])]_vars
LastSet(st) == st.sets[Len(st.sets)]
OnlyTemplatesWrite ==
  [][\A p \in Parsers : \A pr \in {"v9", "ipfix"} :
       tmpl'[p][pr] # tmpl[p][pr] =>
         /\ InCall /\ call.p = p /\ call.sub.kind = pr /\ call'.sub.kind = pr
         /\ Len(call'.sub.st.sets) = Len(call.sub.st.sets) + 1
         /\ LastSet(call'.sub.st).k \in {"tmpl", "otmpl"}
         /\ U16At(call.buf, call.sub.start) \in allowed[p]
         \* every changed entry is a record of the set just framed
         /\ \A kd \in {"data", "opts"} : \A id \in DOMAIN tmpl'[p][pr][kd] :
              (id \notin DOMAIN tmpl[p][pr][kd] \/ tmpl'[p][pr][kd][id] # tmpl[p][pr][kd][id])
                => \E r \in 1..Len(LastSet(call'.sub.st).recs) : LastSet(call'.sub.st).recs[r] = tmpl'[p][pr][kd][id]
    ]_vars
Isolation ==
  [][\A p \in Parsers : tmpl'[p] # tmpl[p] => InCall /\ call.p = p /\ \A q \in Parsers \ {p} : tmpl'[q] = tmpl[q]]_vars

\* C07 / C06: a data set reported by a call was decoded with the definition the cache held at that step,
\* and an id the cache did not hold is never reported as data
DataUsesCache ==
  [][(InCall /\ call'.p # "none" /\ call.sub.kind \in {"v9", "ipfix"} /\ call'.sub.kind = call.sub.kind
      /\ Len(call'.sub.st.sets) = Len(call.sub.st.sets) + 1 /\ LastSet(call'.sub.st).k \in {"data", "odata"})
     => LET s == LastSet(call'.sub.st)  c == tmpl[call.p][call.sub.kind]
            g == Governing(c, s.id, "recency") IN
        /\ g # "none"
        /\ s.k = (IF g = "data" THEN "data" ELSE "odata")
        /\ s.def = c[g][s.id]]_vars

\* C14 / C07: an error item of a V5, V7 or IPFIX packet leaves the caches as they were before that packet
ErrorKeepsCache ==
  Done => LET o == Obs  n == Len(o.out) IN
          (n > 0 /\ o.out[n].k = "err" /\ o.out[n].ver \in {5, 7, 10}) =>
            RunCall(SubSeq(o.buf, 1, o.out[n].s - 1), o.tm0, o.allow, Devs).tm = call.cs.tm
=============================================================================
