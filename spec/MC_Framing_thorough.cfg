SPECIFICATION Spec
CONSTANTS
  Parsers = {"A"}
  Buffers <- MCBuffers
  AllowedSets <- MCAllowedSets
  MaxCalls = 2
  Devs = {}
  MaxChain = 3
  CutMode = "all"
VIEW View
ACTION_CONSTRAINT EmitVector
INVARIANTS Total AccountingInv MicroEqualsMacro ChainInv FilterInv TruncInv ErrorKeepsCache
PROPERTIES Progress NeverEvicted OnlyTemplatesWrite Isolation DataUsesCache
CHECK_DEADLOCK FALSE
