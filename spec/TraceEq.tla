------------------------------- MODULE TraceEq -------------------------------
(***************************************************************************)
(* C17, first clause: two traces recorded from the same operation script - *)
(* one by the harness linked against the default build (A), one against   *)
(* the build with parse_unknown_fields disabled (B).                       *)
(*                                                                         *)
(* MIXED # "1" (streams whose templates hold only fields the library       *)
(* knows): the traces must agree event by event on results (including      *)
(* re-export and common view), caches and JSON digest.                     *)
(*                                                                         *)
(* MIXED = "1" (streams that also define and use templates with fields the *)
(* library does not know): after every call both builds must hold the same *)
(* templates (what a later known-only packet decodes under), and every     *)
(* returned packet that mentions no unknown field type (item.unk = FALSE   *)
(* in the default build) must be returned identically by the feature-off   *)
(* build.  A parser whose caches have diverged is not compared any further *)
(* in that session (everything after is a consequence).                    *)
(***************************************************************************)
EXTENDS Naturals, Sequences, FiniteSets, TLC, Json, IOUtils

RecA == ndJsonDeserialize(IOEnv.TRACE)
RecB == ndJsonDeserialize(IOEnv.TRACE2)
Mixed == "MIXED" \in DOMAIN IOEnv /\ IOEnv.MIXED = "1"
VARIABLES l,
          ta, tb,     \* parser -> <<>> (nothing logged yet) or <<caches as last logged>>, per trace
          off         \* parsers whose caches diverged in this session

Same(a, b) ==
  /\ a.e = b.e
  /\ CASE a.e = "ret"  -> a.out = b.out /\ a.caches = b.caches /\ a.json.sha = b.json.sha
       [] a.e = "call" -> a.buf = b.buf
       [] OTHER        -> a = b

Protos == {"v9", "ipfix"}
NonEmpty(t, pr) == t[pr].data # <<>> \/ t[pr].opts # <<>>
DiffProtos(x, y) ==
  IF x = y THEN {}
  ELSE IF x = <<>> THEN {pr \in Protos : NonEmpty(y[1], pr)}
  ELSE IF y = <<>> THEN {pr \in Protos : NonEmpty(x[1], pr)}
  ELSE {pr \in Protos : x[1][pr] # y[1][pr]}

\* caches as logged: an entry with same = TRUE repeats what was last logged for that parser
Upd(t, caches) ==
  LET ch == {i \in 1..Len(caches) : ~caches[i].same}
      ps == {caches[i].p : i \in ch} IN
  [p \in DOMAIN t \cup ps |->
     IF p \in ps THEN <<caches[CHOOSE i \in ch : caches[i].p = p].tmpl>> ELSE t[p]]

MinLen(a, b) == IF Len(a) < Len(b) THEN Len(a) ELSE Len(b)
\* first position at which the two results differ (0: none)
FirstDiff(x, y) ==
  LET n == MinLen(x, y)
      d == {i \in 1..n : x[i] # y[i]} IN
  IF d # {} THEN CHOOSE i \in d : \A j \in d : i <= j
  ELSE IF Len(x) # Len(y) THEN n + 1 ELSE 0

\* Which template ids differ between the two builds, and is the difference the known one?  The known divergence
\* (KF-c17-ipfix-templates-after-unknown-field-set): inside one IPFIX message the feature-off build stops at a data
\* set it cannot decode (the default build's item mentions an unknown field type), so it reports a proper prefix of
\* the default build's sets and never sees the template sets behind the undecodable one.  Any other difference - a
\* template the feature-off build reported but did not cache, an older definition kept, an entry lost - is not that.
CacheOf(x, pr) == IF x = <<>> THEN [data |-> <<>>, opts |-> <<>>] ELSE x[1][pr]
EntryOf(c, id) == <<{c.data[i].def : i \in {q \in 1..Len(c.data) : c.data[q].key = id}},
                    {c.opts[i].def : i \in {q \in 1..Len(c.opts) : c.opts[q].key = id}}>>
IdsOfCache(c) == {c.data[i].key : i \in 1..Len(c.data)} \cup {c.opts[i].key : i \in 1..Len(c.opts)}
DiffIds(x, y, pr) == {id \in IdsOfCache(CacheOf(x, pr)) \cup IdsOfCache(CacheOf(y, pr)) :
                        EntryOf(CacheOf(x, pr), id) # EntryOf(CacheOf(y, pr), id)}
LostBehindUndecodable(a, b) ==
  UNION {LET sa == a.out[j].sets  sb == b.out[j].sets  m == Len(sb) IN
         IF a.out[j].k = "ipfix" /\ b.out[j].k = "ipfix" /\ a.out[j].unk /\ m < Len(sa)
            /\ SubSeq(sa, 1, m) = sb /\ sa[m + 1].k \in {"data", "odata"}
           THEN UNION {{sa[q].recs[r].id : r \in 1..Len(sa[q].recs)} :
                         q \in {z \in (m + 2)..Len(sa) : sa[z].k \in {"tmpl", "otmpl"}}}
           ELSE {}
         : j \in 1..MinLen(a.out, b.out)}
\* the feature-off build holds, for every id that differs, what it held before the call or a definition from a set
\* it did report in this call (it never saw the later sets)
ReportedEntries(b, id) ==
  UNION {UNION {{IF b.out[j].sets[q].k = "tmpl" THEN <<{b.out[j].sets[q].recs[r]}, {}>> ELSE <<{}, {b.out[j].sets[q].recs[r]}>>
                   : r \in {z \in 1..Len(b.out[j].sets[q].recs) : b.out[j].sets[q].recs[z].id = id}}
                : q \in {z \in 1..Len(b.out[j].sets) : b.out[j].sets[z].k \in {"tmpl", "otmpl"}}}
         : j \in {z \in 1..Len(b.out) : b.out[z].k = "ipfix"}}
CacheDiffWhy(a, b, x, y, xb0, pr, isret) ==
  IF ~isret THEN pr
  ELSE IF pr = "ipfix" /\ DiffIds(x, y, pr) \subseteq LostBehindUndecodable(a, b)
          /\ \A id \in DiffIds(x, y, pr) : \/ EntryOf(CacheOf(y, pr), id) = EntryOf(CacheOf(xb0, pr), id)
                                            \/ EntryOf(CacheOf(y, pr), id) \in ReportedEntries(b, id)
    THEN pr \o ":behind-undecodable-set"
  ELSE pr \o ":unexplained"

MixedFindings(a, b, ta2, tb2) ==
  LET p == a.p
      i == FirstDiff(a.out, b.out)
      tainted == \E j \in 1..(i - 1) : j <= Len(a.out) /\ a.out[j].k \in {"v9", "ipfix"} /\ a.out[j].unk
      items == IF i = 0 \/ tainted THEN {}
               ELSE IF i > Len(a.out) THEN {<<"C17", "feature-off", "extra-item", b.out[i].k>>}
               ELSE IF a.out[i].k \in {"v9", "ipfix"} /\ a.out[i].unk THEN {}
               ELSE {<<"C17", "feature-off", "known-only-item-differs", a.out[i].k>>}
      At(t, q) == IF q \in DOMAIN t THEN t[q] ELSE <<>>
      caches == UNION {{<<"C17", "feature-off", "cache-differs",
                          CacheDiffWhy(a, b, At(ta2, q), At(tb2, q), At(tb, q), pr, q = p /\ "e" \in DOMAIN a /\ a.e = "ret")>> :
                          pr \in DiffProtos(At(ta2, q), At(tb2, q))}
                       : q \in (DOMAIN ta2 \cup DOMAIN tb2) \ off}
  IN IF p \in off THEN {} ELSE items \cup caches

Emit(fs) == \A f \in fs : PrintT("FINDING~~" \o ToString(l) \o "~~" \o f[1] \o "~~" \o f[2] \o "~~" \o f[3] \o "~~" \o f[4])

Init == l = 1 /\ ta = <<>> /\ tb = <<>> /\ off = {} /\ TLCSet(1, 0)
Next == /\ l <= Len(RecA) /\ l <= Len(RecB)
        /\ TLCSet(1, l)
        /\ l' = l + 1
        /\ IF ~Mixed THEN
             /\ IF Same(RecA[l], RecB[l]) THEN TRUE
                ELSE PrintT("FINDING~~" \o ToString(l) \o "~~C17~~feature-off~~differs-from-default~~" \o RecA[l].e)
             /\ UNCHANGED <<ta, tb, off>>
           ELSE LET a == RecA[l]  b == RecB[l] IN
             IF a.e = "reset" THEN ta' = <<>> /\ tb' = <<>> /\ off' = {}
             ELSE IF a.e = b.e /\ "caches" \in DOMAIN a /\ "caches" \in DOMAIN b THEN
               \* (flatret: the flattened common view of a call; it carries the caches like ret, and no items)
               LET ta2 == Upd(ta, a.caches)  tb2 == Upd(tb, b.caches)
                   a2 == IF a.e = "ret" THEN a ELSE [p |-> a.p, out |-> <<>>]
                   b2 == IF b.e = "ret" THEN b ELSE [p |-> b.p, out |-> <<>>] IN
               /\ Emit(MixedFindings(a2, b2, ta2, tb2))
               /\ ta' = ta2 /\ tb' = tb2
               /\ off' = off \cup {q \in DOMAIN ta2 \cup DOMAIN tb2 :
                                     (IF q \in DOMAIN ta2 THEN ta2[q] ELSE <<>>) # (IF q \in DOMAIN tb2 THEN tb2[q] ELSE <<>>)}
             ELSE /\ IF a.e = b.e THEN TRUE
                     ELSE PrintT("FINDING~~" \o ToString(l) \o "~~C17~~feature-off~~event-kind-differs~~" \o a.e)
                  /\ UNCHANGED <<ta, tb, off>>
Spec == Init /\ [][Next]_<<l, ta, tb, off>>
Accepted == \/ (TLCGet(1) = Len(RecA) /\ Len(RecA) = Len(RecB))
            \/ PrintT("FINDING~~" \o ToString(TLCGet(1)) \o "~~C17~~feature-off~~trace-length~~") 
=============================================================================
