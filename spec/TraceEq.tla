------------------------------- MODULE TraceEq -------------------------------
(***************************************************************************)
(* C17, first clause: two traces recorded from the same operation script - *)
(* one by the harness linked against the default build, one against the    *)
(* build with parse_unknown_fields disabled - must agree event by event on *)
(* results (including re-export and common view), caches and JSON digest.  *)
(***************************************************************************)
EXTENDS Naturals, Sequences, TLC, Json, IOUtils

RecA == ndJsonDeserialize(IOEnv.TRACE)
RecB == ndJsonDeserialize(IOEnv.TRACE2)
VARIABLE l

Same(a, b) ==
  /\ a.e = b.e
  /\ CASE a.e = "ret"  -> a.out = b.out /\ a.caches = b.caches /\ a.json.sha = b.json.sha
       [] a.e = "call" -> a.buf = b.buf
       [] OTHER        -> a = b

Init == l = 1 /\ TLCSet(1, 0)
Next == /\ l <= Len(RecA) /\ l <= Len(RecB)
        /\ IF Same(RecA[l], RecB[l]) THEN TRUE
           ELSE PrintT("FINDING~~" \o ToString(l) \o "~~C17~~feature-off~~differs-from-default~~" \o RecA[l].e)
        /\ TLCSet(1, l)
        /\ l' = l + 1
Spec == Init /\ [][Next]_l
Accepted == \/ (TLCGet(1) = Len(RecA) /\ Len(RecA) = Len(RecB))
            \/ PrintT("FINDING~~" \o ToString(TLCGet(1)) \o "~~C17~~feature-off~~trace-length~~") 
=============================================================================
