--------------------------------- MODULE Cmp ---------------------------------
(***************************************************************************)
(* The monitors: the 17 properties as predicates over one observed call    *)
(*   (buffer, allowed set, caches before, result, caches after)            *)
(* evaluated against the reference run of module Run.  Observed values are *)
(* the JSON projections of DESIGN.md Appendix A; expected values are the    *)
(* byte slices the specification cuts from the buffer.                     *)
(*                                                                         *)
(* Every monitor returns a set of findings <<property, locus, aspect,      *)
(* qualifier>>; the empty set means the property held on this event.       *)
(***************************************************************************)
EXTENDS Run, TLC, IOUtils

\* the build under observation: parse_unknown_fields on (default) or off (environment PUF=0)
PufOn == ~("PUF" \in DOMAIN IOEnv /\ IOEnv.PUF = "0")

Strip(f)     == [t |-> f.t, len |-> f.len, ent |-> f.ent, pen |-> f.pen]
StripSeq(fs) == [j \in 1..Len(fs) |-> Strip(fs[j])]

-----------------------------------------------------------------------------
\* Observed cache (sorted list of [key, def]) -> map
\* (the harness sorts the list by key; a binary search keeps the conversion O(n log n) for caches of thousands of ids)
BSearch(L, x) == FoldLeft(LAMBDA a, i : IF a[1] >= a[2] THEN a
                                        ELSE LET mid == (a[1] + a[2]) \div 2 IN
                                             IF L[mid].key < x THEN <<mid + 1, a[2]>> ELSE <<a[1], mid>>,
                          <<1, Len(L)>>, Range1(17))[1]
ListToMap(L) == [x \in {L[i].key : i \in 1..Len(L)} |-> L[BSearch(L, x)].def]
ObsCache(c, last) == [data |-> ListToMap(c.data), opts |-> ListToMap(c.opts), last |-> last]
ObsTm(t, last) == [v9 |-> ObsCache(t.v9, last.v9), ipfix |-> ObsCache(t.ipfix, last.ipfix)]
EmptyLast == [v9 |-> EmptyMap, ipfix |-> EmptyMap]

\* definitions reduced to what is on the wire (names and kinds are library annotations)
StripV9Data(d) == [id |-> d.id, count |-> d.count, fields |-> StripSeq(d.fields)]
StripV9Opts(d) == [id |-> d.id, scope_len |-> d.scope_len, opt_len |-> d.opt_len,
                   scope |-> StripSeq(d.scope), opts |-> StripSeq(d.opts)]
StripIxData(d) == [id |-> d.id, count |-> d.count, fields |-> StripSeq(d.fields)]
StripIxOpts(d) == [id |-> d.id, count |-> d.count, scope_count |-> d.scope_count, fields |-> StripSeq(d.fields)]
StripDef(proto, kind, d) ==
  IF proto = "v9" THEN (IF kind = "data" THEN StripV9Data(d) ELSE StripV9Opts(d))
  ELSE (IF kind = "data" THEN StripIxData(d) ELSE StripIxOpts(d))
StripMap(proto, kind, m) == [x \in DOMAIN m |-> StripDef(proto, kind, m[x])]

EncDef(proto, kind, d) ==
  IF proto = "v9" THEN (IF kind = "data" THEN EncV9TmplRec(d) ELSE EncV9OtmplRec(d))
  ELSE (IF kind = "data" THEN EncIpfixTmplRec(d) ELSE EncIpfixOtmplRec(d))

-----------------------------------------------------------------------------
\* The type the library assigns to a field is an *input* of C04/C05: it is read from the
\* observed field specifiers.  km is a set of <<space, type number, enterprise?, kind>>.
SpecKinds(space, fs) == {<<space, fs[j].t, fs[j].ent, fs[j].kind>> : j \in 1..Len(fs)}
KmOfTm(t) ==
  UNION {SpecKinds("v9", t.v9.data[i].def.fields) : i \in 1..Len(t.v9.data)}
  \cup UNION {SpecKinds("v9scope", t.v9.opts[i].def.scope) \cup SpecKinds("v9", t.v9.opts[i].def.opts) : i \in 1..Len(t.v9.opts)}
  \cup UNION {SpecKinds("ipfix", t.ipfix.data[i].def.fields) : i \in 1..Len(t.ipfix.data)}
  \cup UNION {SpecKinds("ipfix", t.ipfix.opts[i].def.fields) : i \in 1..Len(t.ipfix.opts)}
KmOfSet(proto, st) ==
  IF st.k = "tmpl" THEN UNION {SpecKinds(proto, st.recs[r].fields) : r \in 1..Len(st.recs)}
  ELSE IF st.k = "otmpl" THEN
    (IF proto = "v9" THEN UNION {SpecKinds("v9scope", st.recs[r].scope) \cup SpecKinds("v9", st.recs[r].opts) : r \in 1..Len(st.recs)}
     ELSE UNION {SpecKinds(proto, st.recs[r].fields) : r \in 1..Len(st.recs)})
  ELSE {}
KmOfOut(out) ==
  UNION {IF out[i].k \in {"v9", "ipfix"}
           THEN UNION {KmOfSet(out[i].k, out[i].sets[s]) : s \in 1..Len(out[i].sets)} ELSE {}
         : i \in 1..Len(out)}
KindOf(km, space, f) ==
  LET S == {x \in km : x[1] = space /\ x[2] = f.t /\ x[3] = f.ent} IN
  IF S = {} THEN "?" ELSE (CHOOSE x \in S : TRUE)[4]

Durations == {"DurationSeconds", "DurationMillis", "DurationMicros", "DurationNanos"}
DurIdx(kind) == CASE kind = "DurationSeconds" -> 1 [] kind = "DurationMillis" -> 2
                  [] kind = "DurationMicros" -> 3 [] OTHER -> 4

\* "all supported widths" (DESIGN.md 4.0)
Supported(kind, ln, space) ==
  CASE kind = "UnsignedDataNumber" -> ln \in {1, 2, 3, 4, 8, 16}
    [] kind = "SignedDataNumber"   -> ln \in {1, 2, 3, 4}
    [] kind = "Float64"            -> ln = 8
    [] kind \in Durations          -> ln \in {1, 2, 3, 4, 8}
    [] kind = "Ip4Addr"            -> ln = 4
    [] kind = "Ip6Addr"            -> ln = 16
    [] kind = "MacAddr"            -> ln = 6
    [] kind = "ProtocolType"       -> ln = 1
    [] kind \in {"String", "Vec"}  -> TRUE
    [] kind = "Unknown"            -> PufOn      \* with the feature off an unknown field is not decoded at all
    [] kind = "Scope"              -> ln > 0
    [] OTHER                       -> FALSE

FieldsSupported(km, space, fs) == \A j \in 1..Len(fs) : Supported(KindOf(km, space, fs[j]), fs[j].len, space)
ScopeSupported(km, fs) == \A j \in 1..Len(fs) : fs[j].t \in 1..5 /\ fs[j].len > 0

\* can the content of this (spec-side) data set be compared value by value?
Checkable(km, proto, st) ==
  CASE st.k = "data"  -> FieldsSupported(km, proto, st.def.fields)
    [] st.k = "odata" -> IF proto = "v9"
                           THEN st.recs # <<>>      \* a body shorter than one record: the properties are silent
                                /\ ScopeSupported(km, st.def.scope) /\ FieldsSupported(km, "v9", st.def.opts)
                                /\ \A j \in 1..Len(st.def.opts) : st.def.opts[j].len > 0
                           ELSE FieldsSupported(km, proto, st.def.fields)
    [] OTHER -> TRUE

UTag(n) == CASE n = 1 -> "U8" [] n = 2 -> "U16" [] n = 3 -> "U24" [] n = 4 -> "U32" [] n = 8 -> "U64"
             [] n = 16 -> "U128" [] OTHER -> "?"

\* does the observed value v carry exactly the bytes e, read as the library's type `kind`?
ValEq(v, e, kind) ==
  CASE kind \in Durations          -> v.tag = "Duration" /\ v.d[DurIdx(kind)] = ZeroExt(e, 8)
    [] kind = "String"             -> v.tag = "String" /\ ((\A i \in 1..Len(e) : e[i] < 128) => v.b = e)
    [] kind = "SignedDataNumber"   -> v.tag \in {"I32", "I24"} /\ v.b = SignExt(e, 4)
    [] kind = "UnsignedDataNumber" -> v.tag = UTag(Len(e)) /\ v.b = e
    [] kind = "Float64"            -> v.tag = "F64" /\ v.b = e
    [] kind = "Ip4Addr"            -> v.tag = "Ip4" /\ v.b = e
    [] kind = "Ip6Addr"            -> v.tag = "Ip6" /\ v.b = e
    [] kind = "MacAddr"            -> v.tag = "Mac" /\ v.b = e
    [] kind = "ProtocolType"       -> v.tag = "Proto" /\ ProtoNameOk(e[1], v.s)   \* a symbolic type: its name must be right
    [] kind = "Vec"                -> v.tag = "Vec" /\ v.b = e
    [] kind = "Unknown"            -> v.tag \in {"Vec", "Unknown"} /\ v.b = e
    [] OTHER                       -> FALSE

-----------------------------------------------------------------------------
(***************************************************************************)
(* C02 - accounting, from observed values only.                            *)
(***************************************************************************)
ObsWire(it) == CASE it.k = "v5"    -> 24 + 48 * it.hdr.count
                 [] it.k = "v7"    -> 24 + 52 * it.hdr.count
                 [] it.k = "ipfix" -> Max2(it.hdr.length, 16)
                 [] it.k = "v9"    -> 20 + SumSeq([i \in 1..Len(it.sets) |-> Max2(it.sets[i].len, 4)])
                 [] OTHER          -> 0
ObsVersion(it) == CASE it.k = "v5" -> 5 [] it.k = "v7" -> 7 [] it.k = "v9" -> 9 [] it.k = "ipfix" -> 10
                    [] OTHER -> IF Len(it.rem) >= 2 THEN U16At(it.rem, 1) ELSE 65536

NumPackets(out) == IF out # <<>> /\ out[Len(out)].k = "err" THEN Len(out) - 1 ELSE Len(out)
ObsStarts(out) == Offsets([i \in 1..Len(out) |-> ObsWire(out[i])])     \* 0-based start of each item

Accounting(buf, out, allow) ==
  LET n == Len(out)  np == NumPackets(out)
      used == SumSeq([i \in 1..np |-> ObsWire(out[i])])
  IN IF buf = <<>> THEN (IF out = <<>> THEN "" ELSE "nonempty-on-empty")
     ELSE IF \E i \in 1..np : out[i].k = "err" THEN "error-not-last"
     ELSE IF used > Len(buf) THEN "overrun"
     ELSE IF \E i \in 1..np : ObsVersion(out[i]) # U16At(buf, ObsStarts(out)[i] + 1) THEN "version-mismatch"
     \* (a V9 packet's own header bounds the flowsets that belong to it)
     ELSE IF \E i \in 1..np : out[i].k = "v9" /\ Len(out[i].sets) > out[i].hdr.count THEN "v9-more-flowsets-than-count"
     ELSE IF np < n /\ out[n].rem # Rest(buf, used + 1) THEN "suffix"
     ELSE IF np < n /\ used >= Len(buf) THEN "error-without-bytes"
     ELSE IF np = n /\ used < Len(buf) /\ ~(Len(buf) - used >= 2 /\ U16At(buf, used + 1) \notin allow)
            THEN "silent-stop"
     ELSE ""

-----------------------------------------------------------------------------
(***************************************************************************)
(* Structure: does an observed item have the shape of the expected item?   *)
(* Data-set content is compared only where Checkable (supported widths);   *)
(* elsewhere the properties are silent and only id and length are compared.*)
(***************************************************************************)
SpecsEq(ofs, efs) == Len(ofs) = Len(efs) /\ \A j \in 1..Len(efs) : Strip(ofs[j]) = efs[j]

V9SetMatch(km, os, es) ==
  /\ os.k = es.k /\ os.id = es.id /\ os.len = es.len
  /\ CASE es.k = "tmpl"  -> /\ Len(os.recs) = Len(es.recs) /\ os.pad = es.pad
                            /\ \A i \in 1..Len(es.recs) :
                                  /\ os.recs[i].id = es.recs[i].id /\ os.recs[i].count = es.recs[i].count
                                  /\ SpecsEq(os.recs[i].fields, es.recs[i].fields)
       [] es.k = "otmpl" -> /\ Len(os.recs) = Len(es.recs) /\ os.pad = es.pad
                            /\ \A i \in 1..Len(es.recs) :
                                  /\ os.recs[i].id = es.recs[i].id
                                  /\ os.recs[i].scope_len = es.recs[i].scope_len
                                  /\ os.recs[i].opt_len = es.recs[i].opt_len
                                  /\ SpecsEq(os.recs[i].scope, es.recs[i].scope)
                                  /\ SpecsEq(os.recs[i].opts, es.recs[i].opts)
       [] es.k = "data"  -> Checkable(km, "v9", es) =>
                              /\ Len(os.recs) = Len(es.recs) /\ os.pad = es.pad
                              /\ \A r \in 1..Len(es.recs) : Len(os.recs[r]) = Len(es.def.fields)
       [] es.k = "odata" -> Checkable(km, "v9", es) =>
                              /\ Len(es.recs) = 1 /\ os.pad = es.pad
                              /\ Len(os.scope) = Len(es.def.scope) /\ Len(os.opts) = Len(es.def.opts)
       [] OTHER -> FALSE

MapVals(maps) == Flatten(maps)     \* observed IPFIX data: the entries of all maps, in order

IxSetMatch(km, os, es) ==
  /\ os.k = es.k /\ os.id = es.id /\ os.len = es.len
  /\ CASE es.k = "tmpl"  -> /\ Len(es.recs) = Len(os.recs) /\ os.pad = es.pad
                            /\ \A i \in 1..Len(es.recs) :
                                 /\ os.recs[i].id = es.recs[i].id /\ os.recs[i].count = es.recs[i].count
                                 /\ SpecsEq(os.recs[i].fields, es.recs[i].fields)
       [] es.k = "otmpl" -> /\ Len(es.recs) = Len(os.recs) /\ os.pad = es.pad
                            /\ \A i \in 1..Len(es.recs) :
                                 /\ os.recs[i].id = es.recs[i].id /\ os.recs[i].count = es.recs[i].count
                                 /\ os.recs[i].scope_count = es.recs[i].scope_count
                                 /\ SpecsEq(os.recs[i].fields, es.recs[i].fields)
       [] es.k \in {"data", "odata"} ->
            Checkable(km, "ipfix", es) =>
              /\ Len(MapVals(os.maps)) = Len(es.recs) * Len(es.def.fields) /\ os.pad = es.pad
       [] OTHER -> FALSE

ItemMatch(km, oi, ei) ==
  /\ oi.k = ei.k
  /\ CASE ei.k \in {"v5", "v7"} -> oi.hdr.count = ei.count /\ Len(oi.recs) = ei.count
       [] ei.k = "err" -> oi.kind = ei.kind /\ oi.rem = ei.rem /\ (ei.kind = "Partial" => oi.ver = ei.ver)
       [] ei.k = "v9" -> /\ oi.hdr.count = ei.hdr.count /\ Len(oi.sets) = Len(ei.sets)
                         /\ \A s \in 1..Len(ei.sets) : V9SetMatch(km, oi.sets[s], ei.sets[s])
       [] ei.k = "ipfix" -> /\ oi.hdr.length = ei.hdr.length /\ Len(oi.sets) = Len(ei.sets)
                            /\ \A s \in 1..Len(ei.sets) : IxSetMatch(km, oi.sets[s], ei.sets[s])
       [] OTHER -> FALSE

OutMatch(km, out, eout) == Len(out) = Len(eout) /\ \A i \in 1..Len(eout) : ItemMatch(km, out[i], eout[i])

-----------------------------------------------------------------------------
(***************************************************************************)
(* Conformance antecedents of C04 / C05 / C11, decided from the reference  *)
(* run (never taken from the driver).                                      *)
(***************************************************************************)
V9SetConf(km, es) ==
  CASE es.k = "tmpl"  -> /\ es.len >= 4 /\ es.recs # <<>> /\ Len(es.pad) < 4
                         /\ \A i \in 1..Len(es.recs) : es.recs[i].id >= 256 /\ es.recs[i].count >= 1
    [] es.k = "otmpl" -> /\ es.len >= 4 /\ es.recs # <<>> /\ Len(es.pad) < 4
                         /\ \A i \in 1..Len(es.recs) :
                              /\ es.recs[i].id >= 256 /\ es.recs[i].scope_len % 4 = 0 /\ es.recs[i].opt_len % 4 = 0
                              /\ Len(es.recs[i].scope) + Len(es.recs[i].opts) >= 1
    [] es.k = "data"  -> es.id >= 256 /\ Checkable(km, "v9", es) /\ es.recs # <<>>
    [] es.k = "odata" -> es.id >= 256 /\ Checkable(km, "v9", es) /\ es.recs # <<>>
    [] OTHER -> FALSE
V9ItemConf(km, ei) == ei.k = "v9" /\ ei.sets # <<>> /\ \A s \in 1..Len(ei.sets) : V9SetConf(km, ei.sets[s])

IxSetConf(km, es) ==
  CASE es.k = "tmpl"  -> /\ es.id = 2 /\ es.recs # <<>> /\ Len(es.pad) < 4
                         /\ \A i \in 1..Len(es.recs) : es.recs[i].id >= 256 /\ es.recs[i].count >= 1
    [] es.k = "otmpl" -> /\ es.id = 3 /\ es.recs # <<>> /\ Len(es.pad) < 4
                         /\ \A i \in 1..Len(es.recs) :
                              /\ es.recs[i].id >= 256 /\ es.recs[i].count >= 1
                              /\ es.recs[i].scope_count >= 1 /\ es.recs[i].scope_count <= es.recs[i].count
    [] es.k \in {"data", "odata"} -> /\ es.id >= 256 /\ Checkable(km, "ipfix", es)
                                     /\ Len(es.pad) < MinRecSize(es.def.fields) /\ AllZero(es.pad)
    [] OTHER -> FALSE
IxItemConf(km, ei) == /\ ei.k = "ipfix" /\ ei.hdr.length >= 16 /\ ei.dropped = <<>> /\ ei.left = 0
                      /\ \A s \in 1..Len(ei.sets) : IxSetConf(km, ei.sets[s])

ItemConf(km, ei) == CASE ei.k \in {"v5", "v7"} -> TRUE [] ei.k = "v9" -> V9ItemConf(km, ei)
                      [] ei.k = "ipfix" -> IxItemConf(km, ei) [] OTHER -> FALSE
RunConf(km, run) == run.stop = "end" /\ \A i \in 1..Len(run.out) : ItemConf(km, run.out[i])
-----------------------------------------------------------------------------
(***************************************************************************)
(* C14's antecedent: "the buffer ends before the end announced by the      *)
(* packet's own header", decided from the header fields only (V5/V7 count, *)
(* IPFIX length, V9 flowset lengths) - no templates, no step functions.    *)
(* For V9 a cut exactly on a flowset boundary is not a truncation (the     *)
(* property's quantifier excludes it: the packet is simply shorter).       *)
(***************************************************************************)
V9Cut(b, pos) ==
  LET step(acc, i) ==
        IF acc.done THEN acc
        ELSE IF acc.budget = 0 \/ Avail(b, acc.pos) = 0 THEN [acc EXCEPT !.done = TRUE]
        ELSE IF Avail(b, acc.pos) < 4 \/ Avail(b, acc.pos) < Max2(U16At(b, acc.pos + 2), 4)
               THEN [acc EXCEPT !.done = TRUE, !.cut = TRUE]
        ELSE [acc EXCEPT !.pos = acc.pos + Max2(U16At(b, acc.pos + 2), 4), !.budget = acc.budget - 1]
  IN IF Avail(b, pos) < 20 THEN TRUE
     ELSE FoldLeft(step, [pos |-> pos + 20, budget |-> U16At(b, pos + 2), done |-> FALSE, cut |-> FALSE],
                   Range1(Avail(b, pos) \div 4 + 1)).cut
TruncatedAt(b, pos) ==
  /\ Avail(b, pos) >= 2
  /\ LET v == U16At(b, pos) IN
     CASE v \in {5, 7} -> Avail(b, pos) < 4 \/ Avail(b, pos) < FixedWire(v, U16At(b, pos + 2))
       [] v = 10       -> Avail(b, pos) < 4 \/ Avail(b, pos) < Max2(U16At(b, pos + 2), 16)
       [] v = 9        -> V9Cut(b, pos)
       [] OTHER        -> FALSE
=============================================================================
