----------------------------- MODULE MC_Framing -----------------------------
(***************************************************************************)
(* Bounded model for the framing properties (C01 design level, C02, C11,   *)
(* C12, C14; V5/V7 parts of C03/C08): one parser, buffers = concatenations *)
(* of up to MaxChain packets of an alphabet built with the specification's *)
(* own encoders, the last packet optionally cut; several allowed sets.     *)
(* Every explored Return transition is printed as an operation script      *)
(* (a "vector") and replayed through the real parser by the harness.       *)
(***************************************************************************)
EXTENDS Netflow, Json, Cmp

CONSTANTS MaxChain, CutMode

B4(a) == <<a, a + 1, a + 2, a + 3>>
Hdr5 == [count |-> <<0, 0>>, sys_up_time |-> B4(10), unix_secs |-> B4(20), unix_nsecs |-> B4(30), flow_sequence |-> B4(40),
         engine_type |-> <<50>>, engine_id |-> <<51>>, sampling_interval |-> <<52, 53>>]
Rec5(a) == [src_addr |-> B4(a), dst_addr |-> B4(a + 4), next_hop |-> B4(a + 8), input |-> <<a + 12, a + 13>>,
            output |-> <<a + 14, a + 15>>, d_pkts |-> B4(a + 16), d_octets |-> B4(a + 20), first |-> B4(a + 24),
            last |-> B4(a + 28), src_port |-> <<a + 32, a + 33>>, dst_port |-> <<a + 34, a + 35>>, pad1 |-> <<a + 36>>,
            tcp_flags |-> <<a + 37>>, protocol_number |-> <<6>>, tos |-> <<a + 39>>, src_as |-> <<a + 40, a + 41>>,
            dst_as |-> <<a + 42, a + 43>>, src_mask |-> <<a + 44>>, dst_mask |-> <<a + 45>>, pad2 |-> <<a + 46, a + 47>>]
Hdr7 == [count |-> <<0, 0>>, sys_up_time |-> B4(10), unix_secs |-> B4(20), unix_nsecs |-> B4(30), flow_sequence |-> B4(40),
         reserved |-> B4(60)]
Rec7(a) == [src_addr |-> B4(a), dst_addr |-> B4(a + 4), next_hop |-> B4(a + 8), input |-> <<a + 12, a + 13>>,
            output |-> <<a + 14, a + 15>>, d_pkts |-> B4(a + 16), d_octets |-> B4(a + 20), first |-> B4(a + 24),
            last |-> B4(a + 28), src_port |-> <<a + 32, a + 33>>, dst_port |-> <<a + 34, a + 35>>,
            flags_fields_valid |-> <<a + 36>>, tcp_flags |-> <<a + 37>>, protocol_number |-> <<17>>, tos |-> <<a + 39>>,
            src_as |-> <<a + 40, a + 41>>, dst_as |-> <<a + 42, a + 43>>, src_mask |-> <<a + 44>>, dst_mask |-> <<a + 45>>,
            flags_fields_invalid |-> <<a + 46, a + 47>>, router_src |-> B4(a + 48)]

H9 == [sys_up_time |-> B4(1), unix_secs |-> B4(5), seq |-> B4(9), source_id |-> B4(13)]
HX == [export_time |-> B4(1), seq |-> B4(5), domain |-> B4(9)]
FA == << Spec9(1, 4), Spec9(8, 4) >>
T9(id, fs) == [id |-> id, count |-> Len(fs), fields |-> fs]
RecA(a) == << B4(a), B4(a + 100) >>

PktV5_0 == EncodeFixed(5, Hdr5, <<>>)
PktV5_1 == EncodeFixed(5, [Hdr5 EXCEPT !.count = <<0, 1>>], <<Rec5(100)>>)
PktV7_1 == EncodeFixed(7, [Hdr7 EXCEPT !.count = <<0, 1>>], <<Rec7(150)>>)
PktV9_T  == EncV9Hdr(1, H9) \o EncV9TmplSet(<<T9(256, FA)>>, <<>>)
PktV9_TD == EncV9Hdr(2, H9) \o EncV9TmplSet(<<T9(256, FA)>>, <<>>) \o EncDataSet(256, <<RecA(60)>>, <<0, 0>>)
PktV9_D  == EncV9Hdr(1, H9) \o EncDataSet(256, <<RecA(70), RecA(80)>>, <<>>)
PktV9_Short == EncV9Hdr(2, H9) \o <<0, 0, 0, 2>> \o EncDataSet(256, <<RecA(70)>>, <<>>)   \* a flowset whose length field is < 4
PktV9_ShortLast == EncV9Hdr(1, H9) \o <<0, 0, 0, 1>>                                       \* ... as the last flowset
PktIx_ShortSet == EncIpfixMsg(HX, <<EncIpfixTmplSet(<<T9(257, FA)>>, <<>>), <<0, 2, 0, 3>>>>)   \* a set whose length field is < 4
PktV9_CountBig == EncV9Hdr(65535, H9) \o EncV9TmplSet(<<T9(258, FA)>>, <<>>)                  \* count far above what is present
PktV9_CountSmall == EncV9Hdr(1, H9) \o EncV9TmplSet(<<T9(259, FA)>>, <<>>) \o EncDataSet(259, <<RecA(30)>>, <<>>)   \* fewer than present
PktIx_TD == EncIpfixMsg(HX, <<EncIpfixTmplSet(<<T9(256, FA)>>, <<>>), EncDataSet(256, <<RecA(90)>>, <<>>)>>)
PktIx_D  == EncIpfixMsg(HX, <<EncDataSet(256, <<RecA(110), RecA(120)>>, <<>>)>>)
PktIx_H  == EncIpfixMsg(HX, <<>>)
PktIx_L  == <<0, 10, 0, 9>> \o HX.export_time \o HX.seq \o HX.domain       \* header announcing length 9 (< 16)
PktIx_L0 == <<0, 10, 0, 0>> \o HX.export_time \o HX.seq \o HX.domain       \* header announcing length 0
\* a last set whose length word (12) runs past the end of the message (8 of its 12 bytes are there)
PktIx_Over == EncIpfixMsg(HX, <<EncIpfixTmplSet(<<T9(256, FA)>>, <<>>), <<1, 0, 0, 12>> \o B4(40)>>)
Blob     == <<0, 1, 2, 3>>                                                   \* version 1: not a known version
Tail1    == <<0>>

Alphabet == << PktV5_0, PktV5_1, PktV7_1, PktV9_T, PktV9_TD, PktV9_D, PktV9_Short, PktIx_TD, PktIx_D, PktIx_H, PktIx_L, Blob, Tail1,
              PktV9_ShortLast, PktIx_ShortSet, PktV9_CountBig, PktV9_CountSmall, PktIx_L0, PktIx_Over >>
NA == Len(Alphabet)

Chains(n) == UNION {[1..k -> 1..NA] : k \in 1..n}
Concat(ch) == Flatten([i \in 1..Len(ch) |-> Alphabet[ch[i]]])
\* cut points of the last packet: "few" = around the header and the end; "all" = every proper prefix
Cuts(pk) == IF CutMode = "all" THEN 1..(Len(pk) - 1)
            ELSE {c \in {1, 2, 3, 15, 16, 17, 19, 20, 21, 23, 24, 25, 28, Len(pk) - 1} : c >= 1 /\ c < Len(pk)}
Whole == {Concat(ch) : ch \in Chains(MaxChain)}
CutOnes == UNION {{Concat(SubSeq(ch, 1, Len(ch) - 1)) \o SubSeq(Alphabet[ch[Len(ch)]], 1, c) : c \in Cuts(Alphabet[ch[Len(ch)]])}
                  : ch \in Chains(IF CutMode = "all" /\ MaxChain > 1 THEN 2 ELSE 1)}
MCBuffers == Whole \cup CutOnes \cup {<<>>}
MCAllowedSets == {{5, 7, 9, 10}, {5, 7, 9, 10, 1}, {9, 10}, {5, 10}, {7, 9}, {}}

-----------------------------------------------------------------------------
\* C11 as an invariant of the reference: a buffer of self-delimiting packets decodes to the same items,
\* and leaves the same caches, as its packets delivered one per call (hence as every coarser partition).
Core(it) == IF it.k \in {"v9", "ipfix"}
              THEN [k |-> it.k, hdr |-> it.hdr,
                    sets |-> [s \in 1..Len(it.sets) |-> [x \in (DOMAIN it.sets[s]) \ {"s", "e"} |-> it.sets[s][x]]]]
              ELSE [x \in (DOMAIN it) \ {"s", "e"} |-> it[x]]
SelfDelimiting(o) ==
  /\ o.stop = "end" /\ o.out # <<>>
  /\ \A i \in 1..Len(o.out) : o.out[i].k # "err" /\ (o.out[i].k = "v9" => o.out[i].hdr.count = Len(o.out[i].sets))
PerPacket(o) ==
  FoldLeft(LAMBDA acc, it : LET r == RunCall(SubSeq(o.buf, it.s, it.e), acc.tm, o.allow, Devs) IN
                             [tm |-> r.tm, out |-> acc.out \o [i \in 1..Len(r.out) |-> Core(r.out[i])]],
           [tm |-> o.tm0, out |-> <<>>], o.out)
ChainInv ==
  Done =>
    LET o == Obs IN
    SelfDelimiting(o) =>
      LET pp == PerPacket(o)  whole == RunCall(o.buf, o.tm0, o.allow, Devs) IN
      /\ pp.out = [j \in 1..Len(o.out) |-> Core(o.out[j])]
      /\ pp.tm = whole.tm

\* C12 as an invariant of the reference: the result under allowed set S is the leading part of the
\* result under "everything allowed", up to the first packet whose version is not in S, and the caches
\* are those of parsing only the bytes before that packet.
VersionOf(it, b) == U16At(b, it.s)
EveryVersion == {0, 1, 5, 7, 9, 10}
FilterInv ==
  Done =>
    LET o == Obs
        full == RunCall(o.buf, o.tm0, EveryVersion, Devs)
        k == FirstIdx(Len(full.out), LAMBDA q : Avail(o.buf, full.out[q].s) >= 2 /\ VersionOf(full.out[q], o.buf) \notin o.allow)
        lead == IF k = 0 THEN full.out ELSE SubSeq(full.out, 1, k - 1)
        cutAt == IF k = 0 THEN Len(o.buf) ELSE full.out[k].s - 1
        pre == RunCall(SubSeq(o.buf, 1, cutAt), o.tm0, EveryVersion, Devs)
        mine == RunCall(o.buf, o.tm0, o.allow, Devs)
    IN /\ (o.allow \subseteq EveryVersion) =>
            /\ [j \in 1..Len(o.out) |-> Core(o.out[j])] = [j \in 1..Len(lead) |-> Core(lead[j])]
            /\ mine.tm = pre.tm
       /\ \A j \in 1..Len(o.out) :
            o.out[j].k = "err" =>
              ((o.out[j].kind = "UnknownVersion") <=>
                 (Len(o.out[j].rem) >= 2 /\ U16At(o.out[j].rem, 1) \in o.allow \ Known))

\* C14: TruncatedAt (module Cmp) decides "truncated" from the packet's own header only (no templates, no step functions)
TruncInv ==
  Done =>
    LET o == Obs  n == Len(o.out)
        stopAt == IF n = 0 THEN 1 ELSE IF o.out[n].k = "err" THEN o.out[n].s ELSE o.out[n].e + 1 IN
    /\ \A j \in 1..n : o.out[j].k # "err" => ~TruncatedAt(o.buf, o.out[j].s)
    /\ (Avail(o.buf, stopAt) >= 2 /\ U16At(o.buf, stopAt) \in o.allow /\ TruncatedAt(o.buf, stopAt)) =>
         /\ n > 0 /\ o.out[n].k = "err" /\ o.out[n].rem = Rest(o.buf, stopAt)
         /\ (U16At(o.buf, stopAt) \in {5, 7, 10} =>
               RunCall(o.buf, o.tm0, o.allow, Devs).tm = RunCall(SubSeq(o.buf, 1, stopAt - 1), o.tm0, o.allow, Devs).tm)

-----------------------------------------------------------------------------
\* one vector per explored Return transition: the operation script that leads to it
EmitVector == (InCall /\ call'.p = "none") => PrintT("VEC~~" \o ToJson(hist))
=============================================================================
