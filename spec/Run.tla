--------------------------------- MODULE Run ---------------------------------
(***************************************************************************)
(* One parse_bytes call as a pure function of (buffer, caches, allowed     *)
(* versions): dispatch on the version field, the four packet decoders, the *)
(* chaining of packets in one buffer.                                      *)
(*                                                                         *)
(*   cs = [pos, out, tm, status, stop, used]                               *)
(*     pos    index of the next unread byte (packet boundary)              *)
(*     out    result items so far                                          *)
(*     tm     [v9 |-> cache, ipfix |-> cache]                               *)
(*     status "run" | "done";  stop: why the call ended                    *)
(*            "end" | "error" | "unallowed"                                *)
(***************************************************************************)
EXTENDS Bytes, Fixed, V9, Ipfix

EmptyTm == [v9 |-> EmptyCache, ipfix |-> EmptyCache]
Known == {5, 7, 9, 10}

CallStart(tm) == [pos |-> 1, out |-> <<>>, tm |-> tm, status |-> "run", stop |-> "", used |-> {}]

ErrItem(kind, ver, b, pos, why) ==
  [k |-> "err", kind |-> kind, ver |-> ver, s |-> pos, rem |-> Rest(b, pos), why |-> why, sets |-> <<>>]

TopStep(b, cs, allow, dev) ==
  IF cs.status # "run" THEN cs
  ELSE
    LET pos == cs.pos
        fin(item, stop) == [cs EXCEPT !.out = IF item = <<>> THEN cs.out ELSE Append(cs.out, item[1]),
                                      !.status = "done", !.stop = stop]
    IN
    IF Avail(b, pos) = 0 THEN fin(<<>>, "end")
    ELSE IF Avail(b, pos) = 1 THEN fin(<<ErrItem("Incomplete", 0, b, pos, "version-cut")>>, "error")
    ELSE LET ver == U16At(b, pos) IN
      IF ver \notin allow THEN fin(<<>>, "unallowed")
      ELSE IF ver \notin Known THEN fin(<<ErrItem("UnknownVersion", 0, b, pos, "unknown-version")>>, "error")
      ELSE IF ver \in {5, 7} THEN
        IF FixedComplete(ver, b, pos)
          THEN LET it == DecodeFixed(ver, b, pos) IN
               [cs EXCEPT !.out = Append(cs.out, it), !.pos = it.e + 1]
          ELSE fin(<<ErrItem("Partial", ver, b, pos, "fixed-cut")>>, "error")
      ELSE IF ver = 9 THEN
        LET r == V9Packet(b, pos, cs.tm.v9, dev) IN
        IF r.status = "ok"
          THEN [cs EXCEPT !.out = Append(cs.out, r.item), !.pos = r.next, !.tm.v9 = r.c,
                          !.used = cs.used \cup r.used]
          ELSE [cs EXCEPT !.out = Append(cs.out, r.item @@ [why |-> r.why]), !.tm.v9 = r.c, !.status = "done",
                          !.stop = "error", !.used = cs.used \cup r.used]
      ELSE
        LET r == IpfixPacket(b, pos, cs.tm.ipfix, dev) IN
        IF r.status = "ok"
          THEN [cs EXCEPT !.out = Append(cs.out, r.item), !.pos = r.next, !.tm.ipfix = r.c,
                          !.used = cs.used \cup r.used]
          ELSE [cs EXCEPT !.out = Append(cs.out, r.item @@ [why |-> r.why]), !.status = "done", !.stop = "error"]

\* every packet consumes at least 16 bytes
RunCall(b, tm, allow, dev) ==
  FoldLeft(LAMBDA acc, i : TopStep(b, acc, allow, dev), CallStart(tm), Range1(Len(b) \div 16 + 2))

-----------------------------------------------------------------------------
\* wire length of a spec-side item (for accounting on the model side)
ItemWire(it) == IF it.k = "err" THEN Len(it.rem) ELSE it.e - it.s + 1
=============================================================================
