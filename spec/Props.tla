-------------------------------- MODULE Props --------------------------------
(***************************************************************************)
(* Findings per observed call.  Judge(...) is what Trace.tla evaluates on  *)
(* every `ret` event and what the bounded models evaluate on every         *)
(* transition of the reference model replayed through the real code.       *)
(***************************************************************************)
EXTENDS Cmp

\* Deviations the pinned implementation is known to take (DESIGN.md 7); the trace
\* specification first tries the ideal run, then runs with these branches enabled.
AllDevs == {"KindPriorityNotRecency", "V9OptionsDataFirstRecordOnly", "IpfixGreedyTemplate",
            "IpfixOptionsTemplateFirstOnly", "IpfixStopAfterBadSet"}
DevCandidates == << {}, AllDevs >> \o SetToSeq({AllDevs \ {d} : d \in AllDevs}) \o SetToSeq({{d} : d \in AllDevs})

\* property ids a named deviation is filed under
DevProps(d) == CASE d = "KindPriorityNotRecency"        -> {"C06"}
                 [] d = "V9OptionsDataFirstRecordOnly"  -> {"C04"}
                 [] d = "IpfixGreedyTemplate"           -> {"C05", "C06"}
                 [] d = "IpfixOptionsTemplateFirstOnly" -> {"C05", "C06"}
                 [] d = "IpfixStopAfterBadSet"          -> {"C05"}
                 [] OTHER -> {}

-----------------------------------------------------------------------------
\* C03: field by field against the Cisco layouts, and the IANA name of the protocol number
FixedFindings(oi, ei) ==
  LET ver == IF ei.k = "v5" THEN 5 ELSE 7
      hl == FixedHdrLayout(ver)
      rl == FixedRecLayout(ver)
      badH == {n \in LayoutNames(hl) \ {"count"} : oi.hdr[n] # ei.hdr[n]}
      badR == {n \in LayoutNames(rl) : \E r \in 1..ei.count : oi.recs[r][n] # ei.recs[r][n]}
      badP == {ei.recs[r].protocol_number[1] :
                 r \in {q \in 1..ei.count : ~ProtoNameOk(ei.recs[q].protocol_number[1], oi.recs[q].pnorm)}}
  IN {<<"C03", ei.k \o ".hdr", "field", n>> : n \in badH}
     \cup {<<"C03", ei.k \o ".rec", "field", n>> : n \in badR}
     \cup {<<"C03", ei.k \o ".rec", "pname", ToString(p)>> : p \in badP}
     \cup (IF oi.hdr.version # ver THEN {<<"C03", ei.k \o ".hdr", "field", "version">>} ELSE {})

KindSig(km, space, f) == KindOf(km, space, f) \o "/" \o ToString(f.len)

\* C04: every value of every record of a checkable V9 data / options-data flowset
V9SetFindings(km, os, es) ==
  IF ~Checkable(km, "v9", es) THEN {}
  ELSE IF es.k = "data" THEN
    LET fs == es.def.fields
        bad == {j \in 1..Len(fs) : \E r \in 1..Len(es.recs) :
                   \/ os.recs[r][j].i # j - 1
                   \/ ~ValEq(os.recs[r][j].v, es.recs[r][j], KindOf(km, "v9", fs[j]))}
    IN {<<"C04", "v9.data", "value", KindSig(km, "v9", fs[j])>> : j \in bad}
  ELSE IF es.k = "odata" THEN
    LET badS == {j \in 1..Len(es.def.scope) : os.scope[j].b # es.recs[1].scope[j]}
        badO == {j \in 1..Len(es.def.opts) : os.opts[j].b # es.recs[1].opts[j]}
    IN {<<"C04", "v9.odata", "value", "scope">> : j \in badS} \cup {<<"C04", "v9.odata", "value", "option">> : j \in badO}
  ELSE {}

V9ItemFindings(km, oi, ei) ==
  (IF \E n \in {"sys_up_time", "unix_secs", "seq", "source_id"} : oi.hdr[n] # ei.hdr[n]
     THEN {<<"C04", "v9.hdr", "field", "">>} ELSE {})
  \cup UNION {V9SetFindings(km, oi.sets[s], ei.sets[s]) : s \in 1..Len(ei.sets)}

\* C05: the same for IPFIX; value (r, j) of the observed set is entry (r-1)*F + j of its maps
IxSetFindings(km, os, es) ==
  IF es.k \notin {"data", "odata"} \/ ~Checkable(km, "ipfix", es) THEN {}
  ELSE LET fs == es.def.fields
           F  == Len(fs)
           vs == MapVals(os.maps)
           bad == {j \in 1..F : \E r \in 1..Len(es.recs) :
                     \/ vs[(r - 1) * F + j].i # j - 1
                     \/ ~ValEq(vs[(r - 1) * F + j].v, es.recs[r][j], KindOf(km, "ipfix", fs[j]))}
       IN {<<"C05", "ipfix." \o es.k, "value", KindSig(km, "ipfix", fs[j])>> : j \in bad}

IxItemFindings(km, oi, ei) ==
  (IF \E n \in {"export_time", "seq", "domain"} : oi.hdr[n] # ei.hdr[n]
     THEN {<<"C05", "ipfix.hdr", "field", "">>} ELSE {})
  \cup UNION {IxSetFindings(km, oi.sets[s], ei.sets[s]) : s \in 1..Len(ei.sets)}

ContentFindings(km, out, eout) ==
  UNION {LET oi == out[i]  ei == eout[i] IN
         CASE ei.k \in {"v5", "v7"} -> FixedFindings(oi, ei)
           [] ei.k = "v9"           -> V9ItemFindings(km, oi, ei)
           [] ei.k = "ipfix"        -> IxItemFindings(km, oi, ei)
           [] OTHER                 -> {}
         : i \in 1..Len(eout)}

-----------------------------------------------------------------------------
\* No candidate run explains the observed structure: attribute the first disagreement with the
\* ideal run to the property whose antecedent (decided from the bytes) holds there.
CutWhy == {"header-cut", "set-header-cut", "set-body-cut", "message-cut", "fixed-cut", "version-cut"}
KindAt(out, i) == IF i <= Len(out) THEN out[i].k ELSE "none"
Unexplained(km, out, ideal, allow) ==
  LET eout == ideal.out
      n == Max2(Len(out), Len(eout))
      i == FirstIdx(n, LAMBDA q : q > Len(out) \/ q > Len(eout) \/ ~ItemMatch(km, out[q], eout[q]))
  IN IF i = 0 THEN {}
     ELSE IF i > Len(eout) THEN
       (IF ideal.stop = "unallowed" THEN {<<"C12", "filter", "reported-after-disallowed", KindAt(out, i)>>}
        ELSE {<<"C02", "framing", "extra-item", KindAt(out, i)>>})
     ELSE LET ei == eout[i]  ok == KindAt(out, i) IN
       CASE ei.k \in {"v5", "v7"} -> {<<"C03", ei.k, "complete-packet-not-decoded", ok>>}
         [] ei.k = "err" /\ ei.why \in CutWhy ->
              {<<"C14", "trunc", ToString(ei.ver), ok>>}
         [] ei.k = "err" /\ ei.why = "unknown-template" -> {<<"C07", "v9", "unknown-template", ok>>}
         [] ei.k = "err" /\ ei.why = "unknown-version" -> {<<"C12", "filter", "unknown-version", ok>>}
         [] ei.k = "v9" /\ V9ItemConf(km, ei) -> {<<"C04", "v9", "structure", ok>>}
         [] ei.k = "ipfix" /\ IxItemConf(km, ei) -> {<<"C05", "ipfix", "structure", ok>>}
         [] ei.k = "ipfix" /\ ok = "ipfix" /\
              (\E d \in 1..Len(ei.dropped) : ei.dropped[d].why = "unknown-template" /\
                  \E s \in 1..Len(out[i].sets) : out[i].sets[s].id = ei.dropped[d].id
                                                  /\ out[i].sets[s].k \in {"data", "odata"})
              -> {<<"C07", "ipfix", "unknown-template", ok>>}
         [] OTHER -> {}

-----------------------------------------------------------------------------
\* C06: the cache rule.  pre/post: spec-form caches of the called parser (ObsTm).
Protos == {"v9", "ipfix"}
Kinds  == {"data", "opts"}
IdsOf(c) == DOMAIN c.data \cup DOMAIN c.opts
Changed(pre, post, kind) == {id \in DOMAIN post[kind] : id \notin DOMAIN pre[kind] \/ post[kind][id] # pre[kind][id]}

\* The definition that governs an id (by recency) must be exactly the one the run computed; an
\* entry of the other kind that it superseded may or may not still be held (it can never be used).
GovEq(pr, postc, runc) ==
  /\ IdsOf(postc) = IdsOf(runc)
  /\ \A id \in IdsOf(runc) :
        LET k == Governing(runc, id, "recency") IN
        /\ id \in DOMAIN postc[k]
        /\ StripDef(pr, k, postc[k][id]) = StripDef(pr, k, runc[k][id])

CacheFindings(buf, pre, post, run, matched) ==
  UNION {
    (IF \E id \in IdsOf(pre[pr]) : id \notin IdsOf(post[pr]) THEN {<<"C06", "cache", "evicted", pr>>} ELSE {})
    \cup (IF matched /\ ~GovEq(pr, post[pr], run.tm[pr]) THEN {<<"C06", "cache", "mismatch", pr>>} ELSE {})
    \cup UNION {
      (IF \E id \in Changed(pre[pr], post[pr], kd) :
             ~OccursIn(EncDef(pr, kd, StripDef(pr, kd, post[pr][kd][id])), buf)
         THEN {<<"C06", "cache", "not-from-input", pr \o "." \o kd>>} ELSE {})
      : kd \in Kinds}
    : pr \in Protos}

-----------------------------------------------------------------------------
\* First point at which an observed result departs from a run: <<item index, set index>> (set index 0:
\* the items differ in kind / header / count; <<0, 0>>: no difference).
SetMismatch(km, oi, ei) ==
  LET n == Min2(Len(oi.sets), Len(ei.sets))
      s == FirstIdx(n, LAMBDA q : IF ei.k = "v9" THEN ~V9SetMatch(km, oi.sets[q], ei.sets[q])
                                  ELSE ~IxSetMatch(km, oi.sets[q], ei.sets[q]))
  IN IF s # 0 THEN s ELSE IF Len(oi.sets) # Len(ei.sets) THEN n + 1 ELSE 0
FirstMismatch(km, out, eout) ==
  LET n == Min2(Len(out), Len(eout))
      i == FirstIdx(n, LAMBDA q : ~ItemMatch(km, out[q], eout[q]))
  IN IF i = 0 THEN (IF Len(out) # Len(eout) THEN <<n + 1, 0>> ELSE <<0, 0>>)
     ELSE IF out[i].k = eout[i].k /\ eout[i].k \in {"v9", "ipfix"} THEN <<i, SetMismatch(km, out[i], eout[i])>>
     ELSE <<i, 0>>

\* A run that took named deviations explains the observed result up to a data set that is decoded
\* under a template outside the supported widths (typically one the deviation itself produced):
\* what the implementation does with such a set is not specified, so the rest of the packet is not compared.
RelaxedOk(km, out, run) ==
  LET m == FirstMismatch(km, out, run.out) IN
  /\ run.used # {} /\ m[1] # 0 /\ m[2] # 0 /\ m[1] <= Len(run.out)
  /\ LET ei == run.out[m[1]] IN
       /\ m[2] <= Len(ei.sets)
       /\ ei.sets[m[2]].k \in {"data", "odata"}
       /\ ~Checkable(km, ei.k, ei.sets[m[2]])

(***************************************************************************)
(* Judge one observed call.                                                *)
(*   buf, allow           the input and the allowed-version set            *)
(*   preO, last           the parser's caches before the call (observed    *)
(*                        JSON form) and the recency map (spec state)      *)
(*   out, postO           what the implementation returned / holds after   *)
(***************************************************************************)
Judge(buf, allow, preO, last, out, postO) ==
  LET km    == KmOfTm(preO) \cup KmOfTm(postO) \cup KmOfOut(out)
      pre   == ObsTm(preO, last)
      post  == ObsTm(postO, last)
      acct  == Accounting(buf, out, allow)
      ideal == RunCall(buf, pre, allow, {})
      ci    == FirstIdx(Len(DevCandidates),
                        LAMBDA q : LET r == RunCall(buf, pre, allow, DevCandidates[q]) IN OutMatch(km, out, r.out))
      matched == ci # 0
      ri    == IF matched THEN 0
               ELSE FirstIdx(Len(DevCandidates),
                             LAMBDA q : RelaxedOk(km, out, RunCall(buf, pre, allow, DevCandidates[q])))
      run   == IF ci > 1 THEN RunCall(buf, pre, allow, DevCandidates[ci])
               ELSE IF ri > 1 THEN RunCall(buf, pre, allow, DevCandidates[ri]) ELSE ideal
      conf  == RunConf(km, ideal)
      devF  == IF (matched \/ ri # 0) /\ conf
                 THEN UNION {{<<p, "deviation", d, "">> : p \in DevProps(d)} : d \in run.used} ELSE {}
  IN [findings |->
        (IF acct = "" THEN {} ELSE {<<"C02", "framing", acct, "">>})
        \cup devF
        \cup (IF matched THEN ContentFindings(km, out, run.out)
             ELSE IF ri # 0 THEN {} ELSE Unexplained(km, out, ideal, allow))
        \cup CacheFindings(buf, pre, post, run, matched),
      matched |-> matched, conf |-> conf, dev |-> IF matched \/ ri # 0 THEN run.used ELSE {"?"},
      last |-> [v9 |-> run.tm.v9.last, ipfix |-> run.tm.ipfix.last],
      run |-> run, km |-> km]
=============================================================================
