-------------------------------- MODULE Props --------------------------------
(***************************************************************************)
(* Findings per observed call.  Judge(...) is what Trace.tla evaluates on  *)
(* every `ret` event and what the bounded models evaluate on every         *)
(* transition of the reference model replayed through the real code.       *)
(***************************************************************************)
EXTENDS Cmp

\* Deviations the pinned implementation is known to take (DESIGN.md 7); the trace
\* specification first tries the ideal run, then runs with these branches enabled.
AllDevs == {"KindPriorityNotRecency", "V9OptionsDataFirstRecordOnly", "IpfixGreedyTemplate",
            "IpfixOptionsTemplateFirstOnly", "IpfixStopAfterBadSet"}
\* Deviations repaired in /repo (known_findings.json, status fixed): a run that takes one is tried only after every
\* combination of the live ones has failed to explain the result.  (Tried earlier, the all-deviations run could be
\* picked by the relaxed match for a result that only needed live deviations, and the repaired deviation it happened
\* to take elsewhere in the buffer was then reported as having returned - a false alarm, DESIGN.md 12.)
RepairedDevs == {"KindPriorityNotRecency"}
LiveDevs == AllDevs \ RepairedDevs
DevCandidates == << {}, LiveDevs >> \o SetToSeq({LiveDevs \ {d} : d \in LiveDevs}) \o SetToSeq({{d} : d \in LiveDevs})
                 \o << AllDevs >> \o SetToSeq({{d} : d \in RepairedDevs}) \o SetToSeq({RepairedDevs \cup {d} : d \in LiveDevs})

\* property ids a named deviation is filed under
DevProps(d) == CASE d = "KindPriorityNotRecency"        -> {"C04", "C05", "C06"}     \* data decoded under a superseded definition
                 [] d = "V9OptionsDataFirstRecordOnly"  -> {"C04"}
                 [] d = "IpfixGreedyTemplate"           -> {"C05", "C06"}
                 [] d = "IpfixOptionsTemplateFirstOnly" -> {"C05", "C06"}
                 [] d = "IpfixStopAfterBadSet"          -> {"C05"}
                 [] OTHER -> {}

-----------------------------------------------------------------------------
\* C03: field by field against the Cisco layouts, and the IANA name of the protocol number
FixedFindings(oi, ei) ==
  LET ver == IF ei.k = "v5" THEN 5 ELSE 7
      hl == FixedHdrLayout(ver)
      rl == FixedRecLayout(ver)
      badH == {n \in LayoutNames(hl) \ {"count"} : oi.hdr[n] # ei.hdr[n]}
      badR == {n \in LayoutNames(rl) : \E r \in 1..ei.count : oi.recs[r][n] # ei.recs[r][n]}
      badP == {ei.recs[r].protocol_number[1] :
                 r \in {q \in 1..ei.count : ~ProtoNameOk(ei.recs[q].protocol_number[1], oi.recs[q].pnorm)}}
  IN {<<"C03", ei.k \o ".hdr", "field", n>> : n \in badH}
     \cup {<<"C03", ei.k \o ".rec", "field", n>> : n \in badR}
     \cup {<<"C03", ei.k \o ".rec", "pname", ToString(p)>> : p \in badP}
     \cup (IF oi.hdr.version # ver THEN {<<"C03", ei.k \o ".hdr", "field", "version">>} ELSE {})

KindSig(km, space, f) == KindOf(km, space, f) \o "/" \o ToString(f.len)

\* C04: every value of every record of a checkable V9 data / options-data flowset
V9SetFindings(km, os, es) ==
  IF ~Checkable(km, "v9", es) THEN {}
  ELSE IF es.k = "data" THEN
    LET fs == es.def.fields
        bad == {j \in 1..Len(fs) : \E r \in 1..Len(es.recs) :
                   \/ os.recs[r][j].i # j - 1
                   \/ ~ValEq(os.recs[r][j].v, es.recs[r][j], KindOf(km, "v9", fs[j]))}
    IN {<<"C04", "v9.data", "value", KindSig(km, "v9", fs[j])>> : j \in bad}
  ELSE IF es.k = "odata" THEN
    LET badS == {j \in 1..Len(es.def.scope) : os.scope[j].b # es.recs[1].scope[j]}
        badO == {j \in 1..Len(es.def.opts) : os.opts[j].b # es.recs[1].opts[j]}
    IN {<<"C04", "v9.odata", "value", "scope">> : j \in badS} \cup {<<"C04", "v9.odata", "value", "option">> : j \in badO}
  ELSE {}

\* V9 field types at or above 32768 belong to no registry the library could know (the enterprise bit is an
\* IPFIX notion): whatever type number was sent, such a field is opaque
V9HighTypeFindings(os) ==
  IF os.k = "tmpl" /\ \E r \in 1..Len(os.recs) : \E j \in 1..Len(os.recs[r].fields) :
        os.recs[r].fields[j].t >= 32768 /\ os.recs[r].fields[j].kind # "Unknown"
    THEN {<<"C04", "v9.tmpl", "field-kind", "type-above-32767-not-opaque">>} ELSE {}

V9ItemFindings(km, oi, ei) ==
  (IF \E n \in {"sys_up_time", "unix_secs", "seq", "source_id"} : oi.hdr[n] # ei.hdr[n]
     THEN {<<"C04", "v9.hdr", "field", "">>} ELSE {})
  \cup UNION {V9HighTypeFindings(oi.sets[s]) : s \in 1..Len(oi.sets)}
  \cup UNION {V9SetFindings(km, oi.sets[s], ei.sets[s]) : s \in 1..Len(ei.sets)}

\* C05: the same for IPFIX; value (r, j) of the observed set is entry (r-1)*F + j of its maps
IxSetFindings(km, os, es) ==
  IF es.k \notin {"data", "odata"} \/ ~Checkable(km, "ipfix", es) THEN {}
  ELSE LET fs == es.def.fields
           F  == Len(fs)
           vs == MapVals(os.maps)
           bad == {j \in 1..F : \E r \in 1..Len(es.recs) :
                     \/ vs[(r - 1) * F + j].i # j - 1
                     \/ ~ValEq(vs[(r - 1) * F + j].v, es.recs[r][j], KindOf(km, "ipfix", fs[j]))}
       IN {<<"C05", "ipfix." \o es.k, "value", KindSig(km, "ipfix", fs[j])>> : j \in bad}

IxItemFindings(km, oi, ei) ==
  (IF \E n \in {"export_time", "seq", "domain"} : oi.hdr[n] # ei.hdr[n]
     THEN {<<"C05", "ipfix.hdr", "field", "">>} ELSE {})
  \cup UNION {IxSetFindings(km, oi.sets[s], ei.sets[s]) : s \in 1..Len(ei.sets)}

ContentFindings(km, out, eout) ==
  UNION {LET oi == out[i]  ei == eout[i] IN
         CASE ei.k \in {"v5", "v7"} -> FixedFindings(oi, ei)
           [] ei.k = "v9"           -> V9ItemFindings(km, oi, ei)
           [] ei.k = "ipfix"        -> IxItemFindings(km, oi, ei)
           [] OTHER                 -> {}
         : i \in 1..Len(eout)}

-----------------------------------------------------------------------------
(***************************************************************************)
(* C08 / C09 / C10: re-export is the identity on the bytes the item came   *)
(* from.  The harness logs the export at three grains (whole packet, each  *)
(* set alone, each value), so a difference is attributed, never guessed.   *)
(***************************************************************************)
FixedFieldAt(ver, off) ==       \* name of the field that owns byte `off` (0-based) of a V5/V7 packet
  IF off < 2 THEN "version"
  ELSE IF off < 24 THEN
    LET l == FixedHdrLayout(ver)  o == FixedHdrOffs(ver)
        i == CHOOSE q \in 1..Len(l) : o[q] <= off - 2 /\ off - 2 < o[q] + l[q][2] IN l[i][1]
  ELSE
    LET l == FixedRecLayout(ver)  o == FixedRecOffs(ver)  w == (off - 24) % FixedRecSize(ver)
        i == CHOOSE q \in 1..Len(l) : o[q] <= w /\ w < o[q] + l[q][2] IN l[i][1]

FirstDiffOff(a, b) ==        \* 0-based offset of the first difference of two byte strings, -1 if a prefix
  LET n == Min2(Len(a), Len(b))  i == FirstIdx(n, LAMBDA q : a[q] # b[q]) IN i - 1

FixedExportFindings(buf, oi, ei) ==
  LET want == SubSeq(buf, ei.s, ei.e)  ver == IF ei.k = "v5" THEN 5 ELSE 7 IN
  IF oi.exp.st = "off" THEN {}
  ELSE IF oi.exp.st # "ok" THEN {<<"C08", ei.k, "export", oi.exp.st>>}
  ELSE IF oi.exp.bytes = want THEN {}
  ELSE LET d == FirstDiffOff(oi.exp.bytes, want) IN
       IF d < 0 THEN {<<"C08", ei.k, "export", "length">>}
       ELSE {<<"C08", ei.k, "export", FixedFieldAt(ver, d)>>}

Low4(e8) == IF Len(e8) = 8 THEN SubSeq(e8, 5, 8) ELSE <<>>
RawOf(content, pfx) == IF pfx = 0 THEN content ELSE IF pfx = 1 THEN <<Len(content)>> \o content
                       ELSE <<255>> \o B16(Len(content)) \o content

\* why does the re-export of value v differ from the bytes it was read from?
ValueExportSig(kind, content, pfx, v) ==
  IF v.xok = "panic" THEN "panic"
  ELSE IF pfx > 0 /\ v.xok = "ok" /\ v.x = content THEN "varlen-prefix"
  ELSE IF kind \in Durations THEN
    (IF v.xok = "err" THEN "Duration:err"
     ELSE IF Len(v.x) = 4 /\ v.tag = "Duration" /\ v.x = Low4(v.d[1]) THEN "Duration:secs4" ELSE "Duration:other")
  ELSE IF kind = "MacAddr" THEN (IF Len(v.x) = 17 THEN "Mac:ascii" ELSE "Mac:other")
  ELSE IF kind = "String" THEN (IF \E i \in 1..Len(content) : content[i] >= 128 THEN "String:lossy" ELSE "String:other")
  ELSE IF kind = "SignedDataNumber" THEN
    (IF Len(content) < 4 /\ v.x = SignExt(content, 4) THEN "Signed:widened" ELSE "Signed:other")
  ELSE IF kind = "ProtocolType" THEN
    (IF Len(content) = 1 /\ content[1] >= 145 /\ v.x = <<255>> THEN "Proto:unassigned-as-255" ELSE "Proto:other")
  ELSE kind \o ":other"

\* lossy value classes present in an observed data set whose template is outside the supported widths
LossyTags(vals) ==
  {vals[i].v.tag : i \in {q \in 1..Len(vals) : vals[q].v.tag \in {"Duration", "Mac", "MacBad", "String", "I32", "I24", "Proto"}
                                                \/ vals[q].v.xok # "ok"}}

SetExportFindings(C, km, proto, buf, os, es, sx) ==
  LET want == SubSeq(buf, es.s, es.e)
      loc  == proto \o "." \o es.k
  IN
  IF sx.st = "ok" /\ sx.bytes = want THEN {}
  ELSE IF es.k \in {"tmpl", "otmpl"} THEN
    (IF sx.st = "ok" /\ Len(sx.bytes) = Len(want)
        /\ \A i \in 1..Len(want) : sx.bytes[i] = want[i] \/ (want[i] >= 128 /\ sx.bytes[i] = want[i] - 128)
       THEN {<<C, loc, "export", "ent-bit">>} ELSE {<<C, loc, "export", "spec">>})
  ELSE IF es.k = "odata" /\ proto = "v9" THEN {<<C, loc, "export", "other">>}
  ELSE IF ~Checkable(km, proto, es) THEN
    LET vals == IF proto = "v9" THEN Flatten(os.recs) ELSE MapVals(os.maps)
        tags == LossyTags(vals) \cup (IF proto = "ipfix" /\ HasVarLen(es.def.fields) THEN {"varlen"} ELSE {}) IN
    IF tags = {} THEN {<<C, loc, "export", "unsupported-width:other">>}
    ELSE {<<C, loc, "export", "unsupported-width:" \o t>> : t \in tags}
  ELSE
    LET fs == es.def.fields
        F  == Len(fs)
        ov(r, j) == IF proto = "v9" THEN os.recs[r][j].v ELSE MapVals(os.maps)[(r - 1) * F + j].v
        px(r, j) == IF proto = "v9" THEN 0 ELSE es.pfx[r][j]
        bad == {<<r, j>> \in (1..Len(es.recs)) \X (1..F) :
                   ov(r, j).xok # "ok" \/ ov(r, j).x # RawOf(es.recs[r][j], px(r, j))}
    IN IF bad # {} THEN
         {<<C, loc, "export.value", ValueExportSig(KindOf(km, proto, fs[p[2]]), es.recs[p[1]][p[2]], px(p[1], p[2]), ov(p[1], p[2]))>> : p \in bad}
       ELSE IF sx.st = "ok" /\ es.pad # <<>> /\ sx.bytes \o es.pad = want THEN {<<C, loc, "export", "pad">>}
       ELSE {<<C, loc, "export", "other">>}

VarExportFindings(km, buf, oi, ei) ==
  LET C == IF ei.k = "v9" THEN "C09" ELSE "C10"
      want == SubSeq(buf, ei.s, ei.e) IN
  IF oi.exp.st = "off" THEN {}
  ELSE IF oi.exp.st = "panic" THEN {<<"C01", "post", "export", "panic">>, <<C, "msg", "export", "panic">>}
  ELSE IF oi.exp.st = "ok" /\ oi.exp.bytes = want THEN {}
  ELSE LET per == UNION {SetExportFindings(C, km, ei.k, buf, oi.sets[s], ei.sets[s], oi.sexp[s]) : s \in 1..Len(ei.sets)} IN
       IF per # {} THEN per
       ELSE IF ei.k = "ipfix" /\ (ei.dropped # <<>> \/ ei.left > 0) THEN {<<C, "msg", "export", "sets-omitted">>}
       ELSE IF oi.exp.st # "ok" THEN {<<C, "msg", "export", oi.exp.st>>}
       ELSE {<<C, "msg", "export", "header">>}

ExportFindings(km, buf, out, eout) ==
  UNION {LET oi == out[i]  ei == eout[i] IN
         CASE ei.k \in {"v5", "v7"} -> FixedExportFindings(buf, oi, ei)
           [] ei.k \in {"v9", "ipfix"} -> VarExportFindings(km, buf, oi, ei)
           [] OTHER -> {}
         : i \in 1..Len(eout)}

-----------------------------------------------------------------------------
(***************************************************************************)
(* C13: the common-flow view is a projection of what was decoded.          *)
(***************************************************************************)
Absent == <<>>
FieldVal(fs, rec, ts) ==      \* value of the first field whose type number is ts[1], else ts[2], ...; Absent if none
  LET hit(t) == {j \in 1..Len(fs) : fs[j].t = t /\ ~fs[j].ent}
      t == FirstIdx(Len(ts), LAMBDA q : hit(ts[q]) # {}) IN
  IF t = 0 THEN Absent ELSE rec[CHOOSE j \in hit(ts[t]) : \A k \in hit(ts[t]) : j <= k]
HasField(fs, ts) == \E j \in 1..Len(fs) : fs[j].t \in ToSet(ts) /\ ~fs[j].ent

\* aspects of a common flow: name, field numbers (in lookup order), natural widths
Aspects == << <<"src", <<8, 27>>, {4, 16}>>, <<"dst", <<12, 28>>, {4, 16}>>, <<"sp", <<7>>, {2}>>, <<"dp", <<11>>, {2}>>,
              <<"proto", <<4>>, {1}>>, <<"first", <<22>>, {4}>>, <<"last", <<21>>, {4}>>,
              <<"smac", <<56>>, {6}>>, <<"dmac", <<80>>, {6}>> >>

\* Every occurrence of one of the aspect's field numbers in the record is a "corresponding decoded
\* field" (a template may repeat a field, or carry both the IPv4 and the IPv6 variant).
RecordFlowFindings(proto, fs, rec, fl) ==
  UNION {LET a == Aspects[i]
             cands == {rec[j] : j \in {q \in 1..Len(fs) : fs[q].t \in ToSet(a[2]) /\ ~fs[q].ent}}
             nat == {v \in cands : Len(v) \in a[3]} IN
         IF cands = {} THEN (IF fl[a[1]] # Absent THEN {<<"C13", "common", a[1], "present-but-absent:" \o proto>>} ELSE {})
         \* an 8-byte time field: the 32-bit common value can only be its low half when the high half is zero
         \* (absence is tolerated: the value may not fit), never some other number
         ELSE IF a[1] \in {"first", "last"} /\ \A v \in cands : Len(v) = 8 THEN
           (IF fl[a[1]] = Absent \/ \E v \in cands : AllZero(SubSeq(v, 1, 4)) /\ fl[a[1]] = SubSeq(v, 5, 8) THEN {}
            ELSE {<<"C13", "common", a[1], "differs:" \o proto>>})
         ELSE IF nat # cands THEN {}      \* some occurrence has a reduced/odd width: no verdict on this aspect
         ELSE IF fl[a[1]] = Absent THEN {<<"C13", "common", a[1], "absent-but-present:" \o proto>>}
         \* (a record with several protocol fields, one of them holding 255 itself: the unassigned one was projected)
         ELSE IF a[1] = "proto" /\ fl.proto = <<255>> /\ fl.pname = "unknown" /\ \E v \in nat : v[1] >= 145 /\ v[1] <= 254
           THEN {<<"C13", "common", "proto", "unassigned-as-255:" \o proto>>}
         ELSE IF fl[a[1]] \notin nat THEN
           (IF a[1] = "proto" /\ fl.proto = <<255>> /\ \E v \in nat : v[1] >= 145
              THEN {<<"C13", "common", "proto", "unassigned-as-255:" \o proto>>}
              ELSE {<<"C13", "common", a[1], "differs:" \o proto>>})
         ELSE IF a[1] = "proto" /\ ~ProtoNameOk(fl.proto[1], fl.pname) THEN {<<"C13", "common", "pname", ToString(fl.proto[1])>>}
         ELSE {}
         : i \in 1..Len(Aspects)}

DataRecords(km, ei) ==      \* <<fields, record>> for every record of every checkable data set, in order
  Flatten([s \in 1..Len(ei.sets) |->
             IF ei.sets[s].k = "data" /\ Checkable(km, ei.k, ei.sets[s])
               THEN [r \in 1..Len(ei.sets[s].recs) |-> <<ei.sets[s].def.fields, ei.sets[s].recs[r]>>]
               ELSE <<>>])
AllDataCheckable(km, ei) == \A s \in 1..Len(ei.sets) : ei.sets[s].k = "data" => Checkable(km, ei.k, ei.sets[s])

CommonFindings(km, oi, ei) ==
  LET c == oi.common IN
  IF c.st = "off" THEN {}
  ELSE IF c.st = "panic" THEN {<<"C01", "post", "common", "panic">>}
  ELSE IF ei.k = "err" THEN (IF c.st = "err" THEN {} ELSE {<<"C13", "common", "error", "converted">>})
  ELSE IF c.st # "ok" THEN {<<"C13", "common", "packet", "not-converted">>}
  ELSE IF ei.k \in {"v5", "v7"} THEN
    (IF c.version # (IF ei.k = "v5" THEN 5 ELSE 7) THEN {<<"C13", "common", "version", ei.k>>} ELSE {})
    \cup (IF c.ts \notin {ei.hdr.sys_up_time, ei.hdr.unix_secs} THEN {<<"C13", "common", "ts", ei.k>>} ELSE {})
    \cup (IF Len(c.flows) # ei.count THEN {<<"C13", "common", "flow-count", ei.k>>}
         ELSE UNION {LET r == ei.recs[i]  f == c.flows[i] IN
                (IF f.src # r.src_addr THEN {<<"C13", "common", "src", "differs:" \o ei.k>>} ELSE {})
                \cup (IF f.dst # r.dst_addr THEN {<<"C13", "common", "dst", "differs:" \o ei.k>>} ELSE {})
                \cup (IF f.sp # r.src_port THEN {<<"C13", "common", "sp", "differs:" \o ei.k>>} ELSE {})
                \cup (IF f.dp # r.dst_port THEN {<<"C13", "common", "dp", "differs:" \o ei.k>>} ELSE {})
                \cup (IF f.proto # r.protocol_number THEN {<<"C13", "common", "proto", "differs:" \o ei.k>>} ELSE {})
                \cup (IF ~ProtoNameOk(r.protocol_number[1], f.pname) THEN {<<"C13", "common", "pname", ToString(r.protocol_number[1])>>} ELSE {})
                \cup (IF f.first # r.first THEN {<<"C13", "common", "first", "differs:" \o ei.k>>} ELSE {})
                \cup (IF f.last # r.last THEN {<<"C13", "common", "last", "differs:" \o ei.k>>} ELSE {})
                \cup (IF f.smac # Absent \/ f.dmac # Absent THEN {<<"C13", "common", "mac", "present-but-absent:" \o ei.k>>} ELSE {})
                : i \in 1..ei.count})
  ELSE
    (IF c.version # (IF ei.k = "v9" THEN 9 ELSE 10) THEN {<<"C13", "common", "version", ei.k>>} ELSE {})
    \cup (IF (ei.k = "v9" /\ c.ts \notin {ei.hdr.sys_up_time, ei.hdr.unix_secs}) \/ (ei.k = "ipfix" /\ c.ts # ei.hdr.export_time)
           THEN {<<"C13", "common", "ts", ei.k>>} ELSE {})
    \cup (IF ~AllDataCheckable(km, ei) THEN {}
         ELSE LET recs == DataRecords(km, ei) IN
              IF Len(c.flows) # Len(recs) THEN {<<"C13", "common", "flow-count", ei.k>>}
              ELSE UNION {RecordFlowFindings(ei.k, recs[i][1], recs[i][2], c.flows[i]) : i \in 1..Len(recs)})

\* When no reference run explains the structure, the export identity can still be judged from the observed
\* accounting alone (item i occupies ObsWire bytes from its ObsStarts offset) - for items that hold no value of a
\* kind known to re-export lossily and no IPFIX data at all (variable-length prefixes, omitted sets).
ItemVals(it) ==
  IF it.k = "v9" THEN Flatten([s \in 1..Len(it.sets) |-> IF it.sets[s].k = "data" THEN Flatten(it.sets[s].recs) ELSE <<>>])
  ELSE <<>>
ExportBasic(buf, out) ==
  LET st == ObsStarts(out) IN
  UNION {LET it == out[i] IN
         IF it.k = "err" \/ it.exp.st = "off" THEN {}
         ELSE IF it.k = "v9" /\ LossyTags(ItemVals(it)) # {} THEN {}
         ELSE IF it.k = "ipfix" /\ \E s \in 1..Len(it.sets) : it.sets[s].k \in {"data", "odata"} THEN {}
         ELSE IF it.k = "ipfix" /\ SumSeq([s \in 1..Len(it.sets) |-> Max2(it.sets[s].len, 4)]) + 16 # ObsWire(it) THEN {}   \* sets were omitted
         ELSE IF st[i] + ObsWire(it) > Len(buf) THEN {}
         ELSE IF it.exp.st = "ok" /\ it.exp.bytes = SubSeq(buf, st[i] + 1, st[i] + ObsWire(it)) THEN {}
         ELSE {<<IF it.k = "v9" THEN "C09" ELSE IF it.k = "ipfix" THEN "C10" ELSE "C08", it.k, "export", "differs-from-consumed-bytes">>}
         : i \in 1..NumPackets(out)}

PostFindings(km, buf, out, eout) ==
  ExportFindings(km, buf, out, eout) \cup UNION {CommonFindings(km, out[i], eout[i]) : i \in 1..Len(eout)}

-----------------------------------------------------------------------------
\* No candidate run explains the observed structure: attribute the first disagreement with the
\* ideal run to the property whose antecedent (decided from the bytes) holds there.
CutWhy == {"header-cut", "set-header-cut", "set-body-cut", "message-cut", "fixed-cut", "version-cut"}
KindAt(out, i) == IF i <= Len(out) THEN out[i].k ELSE "none"
Unexplained(km, out, ideal, allow) ==
  LET eout == ideal.out
      n == Max2(Len(out), Len(eout))
      i == FirstIdx(n, LAMBDA q : q > Len(out) \/ q > Len(eout) \/ ~ItemMatch(km, out[q], eout[q]))
      n0 == Len(eout)
      \* C07: "earlier packets in the same buffer are still reported" when the buffer ends in unknown-template data
      c07 == IF i # 0 /\ n0 > 0 /\ eout[n0].k = "err" /\ eout[n0].why = "unknown-template" /\ i < n0
               THEN {<<"C07", "v9", "unknown-template", "earlier-items">>} ELSE {}
      \* C07: "an IPFIX message simply omits that set" - the message itself is still reported
      c07b == IF i # 0 /\ i <= n0 /\ eout[i].k = "ipfix" /\ KindAt(out, i) # "ipfix"
                   /\ \E d \in 1..Len(eout[i].dropped) : eout[i].dropped[d].why = "unknown-template"
                THEN {<<"C07", "ipfix", "unknown-template", "message-" \o KindAt(out, i)>>} ELSE {}
  IN IF i = 0 THEN {}
     ELSE c07 \cup c07b \cup
     IF i > Len(eout) THEN
       (IF ideal.stop = "unallowed" THEN {<<"C12", "filter", "reported-after-disallowed", KindAt(out, i)>>}
        ELSE {<<"C02", "framing", "extra-item", KindAt(out, i)>>})
     ELSE LET ei == eout[i]  ok == KindAt(out, i) IN
       CASE ei.k \in {"v5", "v7"} -> {<<"C03", ei.k, "complete-packet-not-decoded", ok>>}
         [] ei.k = "err" /\ ei.why \in CutWhy ->
              {<<"C14", "trunc", ToString(ei.ver), ok>>}
              \* C03's last sentence: a buffer shorter than 24 + 48/52 * count is an error, never a shorter packet
              \cup (IF ei.why = "fixed-cut" THEN {<<"C03", IF ei.ver = 5 THEN "v5" ELSE "v7", "short-buffer-not-an-error", ok>>} ELSE {})
         [] ei.k = "err" /\ ei.why = "unknown-template" -> {<<"C07", "v9", "unknown-template", ok>>}
         [] ei.k = "err" /\ ei.why = "unknown-version" -> {<<"C12", "filter", "unknown-version", ok>>}
         [] ei.k = "v9" /\ V9ItemConf(km, ei) -> {<<"C04", "v9", "structure", ok>>}
         [] ei.k = "ipfix" /\ IxItemConf(km, ei) -> {<<"C05", "ipfix", "structure", ok>>}
         [] ei.k = "ipfix" /\ ok = "ipfix" /\
              (\E d \in 1..Len(ei.dropped) : ei.dropped[d].why = "unknown-template" /\
                  \E s \in 1..Len(out[i].sets) : out[i].sets[s].id = ei.dropped[d].id)    \* reported, as whatever kind
              -> {<<"C07", "ipfix", "unknown-template", ok>>}
         [] OTHER -> {}

-----------------------------------------------------------------------------
\* C06: the cache rule.  pre/post: spec-form caches of the called parser (ObsTm).
Protos == {"v9", "ipfix"}
Kinds  == {"data", "opts"}
IdsOf(c) == DOMAIN c.data \cup DOMAIN c.opts
Changed(pre, post, kind) == {id \in DOMAIN post[kind] : id \notin DOMAIN pre[kind] \/ post[kind][id] # pre[kind][id]}

\* The definition that governs an id (by recency) must be exactly the one the run computed; an
\* entry of the other kind that it superseded may or may not still be held (it can never be used).
GovEq(pr, postc, runc) ==
  /\ IdsOf(postc) = IdsOf(runc)
  /\ \A id \in IdsOf(runc) :
        LET k == Governing(runc, id, "recency") IN
        /\ id \in DOMAIN postc[k]
        /\ StripDef(pr, k, postc[k][id]) = StripDef(pr, k, runc[k][id])

\* C07: "the caches are unchanged by it" - ids the reference run met as unknown (and that nothing in the buffer
\* defines, so they are unknown to the run to the end) must not have appeared in the cache
UnknownIds(buf, run, pr) ==
  LET o == run.out  n == Len(o) IN
  IF pr = "v9" THEN
    (IF n > 0 /\ o[n].k = "err" /\ o[n].why = "unknown-template" /\ o[n].ver = 9
       THEN LET at == IF Len(o[n].sets) = 0 THEN o[n].s + 20 ELSE o[n].sets[Len(o[n].sets)].e + 1 IN {U16At(buf, at)}
       ELSE {})
  ELSE UNION {{o[i].dropped[d].id : d \in {q \in 1..Len(o[i].dropped) : o[i].dropped[q].why = "unknown-template"}}
              : i \in {q \in 1..n : o[q].k = "ipfix"}}

CacheFindings(buf, pre, post, run, matched) ==
  UNION {
    (IF \E id \in UnknownIds(buf, run, pr) : id \in IdsOf(post[pr]) /\ id \notin IdsOf(run.tm[pr]) /\ id \notin IdsOf(pre[pr])
       THEN {<<"C07", pr, "unknown-template", "cache">>} ELSE {}) \cup
    (IF \E id \in IdsOf(pre[pr]) : id \notin IdsOf(post[pr]) THEN {<<"C06", "cache", "evicted", pr>>} ELSE {})
    \cup (IF matched /\ ~GovEq(pr, post[pr], run.tm[pr]) THEN {<<"C06", "cache", "mismatch", pr>>} ELSE {})
    \cup UNION {
      \* (when the structure is explained the exact comparison above already ties every entry to a record
      \*  the reference framed in this buffer; the search is the envelope for the unexplained case)
      (IF ~matched /\ \E id \in Changed(pre[pr], post[pr], kd) :
             ~OccursIn(EncDef(pr, kd, StripDef(pr, kd, post[pr][kd][id])), buf)
         THEN {<<"C06", "cache", "not-from-input", pr \o "." \o kd>>} ELSE {})
      : kd \in Kinds}
    : pr \in Protos}

-----------------------------------------------------------------------------
\* First point at which an observed result departs from a run: <<item index, set index>> (set index 0:
\* the items differ in kind / header / count; <<0, 0>>: no difference).
SetMismatch(km, oi, ei) ==
  LET n == Min2(Len(oi.sets), Len(ei.sets))
      s == FirstIdx(n, LAMBDA q : IF ei.k = "v9" THEN ~V9SetMatch(km, oi.sets[q], ei.sets[q])
                                  ELSE ~IxSetMatch(km, oi.sets[q], ei.sets[q]))
  IN IF s # 0 THEN s ELSE IF Len(oi.sets) # Len(ei.sets) THEN n + 1 ELSE 0
FirstMismatch(km, out, eout) ==
  LET n == Min2(Len(out), Len(eout))
      i == FirstIdx(n, LAMBDA q : ~ItemMatch(km, out[q], eout[q]))
  IN IF i = 0 THEN (IF Len(out) # Len(eout) THEN <<n + 1, 0>> ELSE <<0, 0>>)
     ELSE IF out[i].k = eout[i].k /\ eout[i].k \in {"v9", "ipfix"} THEN <<i, SetMismatch(km, out[i], eout[i])>>
     ELSE <<i, 0>>

\* A run that took named deviations explains the observed result up to a data set that is decoded
\* under a template outside the supported widths (typically one the deviation itself produced):
\* what the implementation does with such a set is not specified, so the rest of the packet is not compared.
RelaxedOk(km, out, run) ==
  LET m == FirstMismatch(km, out, run.out) IN
  /\ run.used # {} /\ m[1] # 0 /\ m[2] # 0 /\ m[1] <= Len(run.out)
  /\ LET ei == run.out[m[1]] IN
       /\ m[2] <= Len(ei.sets)
       /\ ei.sets[m[2]].k \in {"data", "odata"}
       /\ ~Checkable(km, ei.k, ei.sets[m[2]])

(***************************************************************************)
(* C06, first sentence, for template ids whose definition CHANGED: the     *)
(* set of <<protocol, id>> that a call redefines - a template record for   *)
(* an id that already had a different governing definition (in the caches  *)
(* before the call, or from an earlier set of the same call).  Computed    *)
(* from the reference run's sets; Trace.tla accumulates it per parser.     *)
(* When a data set of such an id, in a conformant packet, is reported with *)
(* a structure other than the one its latest definition gives, it was not  *)
(* decoded with the most recent template (it may have been decoded with a  *)
(* blend of the old and the new one: a memoised record size, say).         *)
(***************************************************************************)
GovDefOf(pr, c, id) ==
  LET k == Governing(c, id, "recency") IN IF k = "none" THEN <<"none">> ELSE <<k, StripDef(pr, k, c[k][id])>>
RunSets(eout) ==
  Flatten([i \in 1..Len(eout) |->
             IF eout[i].k \in {"v9", "ipfix"} \/ (eout[i].k = "err" /\ eout[i].ver = 9)
               THEN [q \in 1..Len(eout[i].sets) |-> [pr |-> IF eout[i].k = "ipfix" THEN "ipfix" ELSE "v9", st |-> eout[i].sets[q]]]
               ELSE <<>>])
RedefRecStep(pre, pr, kd, ac, r) ==
  LET key == <<pr, r.id>>
      old == IF key \in DOMAIN ac.cur THEN ac.cur[key] ELSE GovDefOf(pr, pre[pr], r.id)
      new == <<kd, StripDef(pr, kd, r)>> IN
  [cur |-> MapPut(ac.cur, key, new),
   red |-> IF old # <<"none">> /\ old # new THEN ac.red \cup {key} ELSE ac.red]
Redefined(pre, eout) ==
  LET step(ac, x) ==
        IF x.st.k \in {"tmpl", "otmpl"}
          THEN LET kd == IF x.st.k = "tmpl" THEN "data" ELSE "opts" IN
               FoldLeft(LAMBDA a, r : RedefRecStep(pre, x.pr, kd, a, r), ac, x.st.recs)
          ELSE ac
  IN FoldLeft(step, [cur |-> EmptyMap, red |-> {}], RunSets(eout)).red
RedefFindings(km, out, ideal, redefs) ==
  LET m == FirstMismatch(km, out, ideal.out) IN
  IF m[1] # 0 /\ m[1] <= Len(ideal.out) /\ m[2] # 0 /\ ideal.out[m[1]].k \in {"v9", "ipfix"}
     /\ m[2] <= Len(ideal.out[m[1]].sets) /\ ideal.out[m[1]].sets[m[2]].k \in {"data", "odata"}
     /\ <<ideal.out[m[1]].k, ideal.out[m[1]].sets[m[2]].id>> \in redefs
    THEN {<<"C06", ideal.out[m[1]].k \o ".data", "redefined-id", "not-decoded-by-latest-definition">>}
    ELSE {}

(***************************************************************************)
(* Judge one observed call.                                                *)
(*   buf, allow           the input and the allowed-version set            *)
(*   preO, last           the parser's caches before the call (observed    *)
(*                        JSON form) and the recency map (spec state)      *)
(*   out, postO           what the implementation returned / holds after   *)
(***************************************************************************)
Judge(buf, allow, preO, last, out, postO) ==
  LET km    == KmOfTm(preO) \cup KmOfTm(postO) \cup KmOfOut(out)
      redef0 == IF "redef" \in DOMAIN last THEN last.redef ELSE {}
      pre   == ObsTm(preO, last)
      post  == ObsTm(postO, last)
      acct  == Accounting(buf, out, allow)
      ideal == RunCall(buf, pre, allow, {})
      ci    == FirstIdx(Len(DevCandidates),
                        LAMBDA q : LET r == RunCall(buf, pre, allow, DevCandidates[q]) IN OutMatch(km, out, r.out))
      matched == ci # 0
      ri    == IF matched THEN 0
               ELSE FirstIdx(Len(DevCandidates),
                             LAMBDA q : RelaxedOk(km, out, RunCall(buf, pre, allow, DevCandidates[q])))
      run   == IF ci > 1 THEN RunCall(buf, pre, allow, DevCandidates[ci])
               ELSE IF ri > 1 THEN RunCall(buf, pre, allow, DevCandidates[ri]) ELSE ideal
      conf  == RunConf(km, ideal)
      devF  == IF (matched \/ ri # 0) /\ conf
                 THEN UNION {{<<p, "deviation", d, "">> : p \in DevProps(d)} : d \in run.used} ELSE {}
  IN [findings |->
        (IF acct = "" THEN {} ELSE {<<"C02", "framing", acct, "">>})
        \cup devF
        \cup (IF matched THEN ContentFindings(km, out, run.out) \cup PostFindings(km, buf, out, run.out)
             ELSE (IF acct = "" THEN ExportBasic(buf, out) ELSE {})
                  \cup (IF ri # 0 THEN {} ELSE Unexplained(km, out, ideal, allow)))
        \cup CacheFindings(buf, pre, post, run, matched)
        \* C14, last sentence: a truncated V5, V7 or IPFIX packet leaves the caches unchanged
        \* (judged only when a run of the reference explains the result, against that run's caches)
        \cup (LET n == Len(run.out) IN
              IF matched /\ n > 0 /\ run.out[n].k = "err" /\ run.out[n].why \in CutWhy /\ run.out[n].ver \in {5, 7, 10}
                   /\ \E pr \in Protos : ~GovEq(pr, post[pr], run.tm[pr])
                THEN {<<"C14", "trunc", "cache", ToString(run.out[n].ver)>>} ELSE {})
        \* unexplained structure on a conformant buffer, at a data set of an id that was redefined (C06)
        \cup (IF ~matched /\ ri = 0 /\ conf THEN RedefFindings(km, out, ideal, redef0 \cup Redefined(pre, ideal.out)) ELSE {})
        \* unexplained structure on a conformant buffer: the caches must still be the reference's
        \cup (IF ~matched /\ ri = 0 /\ conf
              THEN UNION {IF GovEq(pr, post[pr], ideal.tm[pr]) THEN {} ELSE {<<"C06", "cache", "mismatch", pr>>} : pr \in Protos}
              ELSE {}),
      matched |-> matched, conf |-> conf, dev |-> IF matched \/ ri # 0 THEN run.used ELSE {"?"},
      last |-> [v9 |-> run.tm.v9.last, ipfix |-> run.tm.ipfix.last, redef |-> redef0 \cup Redefined(pre, run.out)],
      run |-> run, km |-> km]
=============================================================================
