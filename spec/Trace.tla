-------------------------------- MODULE Trace --------------------------------
(***************************************************************************)
(* Trace validation: replays an ndjson trace recorded from the real code   *)
(* (harness/src/main.rs) through the specification.  One TLC state per     *)
(* event; on every `ret` the monitors of Props.tla are evaluated against   *)
(* the reference run; findings are printed, the observed caches are        *)
(* adopted, and validation continues (DESIGN.md 3.6).                      *)
(*                                                                         *)
(*   TRACE=<file> tlc -workers 1 -config Trace.cfg Trace.tla                *)
(***************************************************************************)
EXTENDS Props, Json, IOUtils

Rec == ndJsonDeserialize(IOEnv.TRACE)

VARIABLES l,        \* index of the next event
          tms,      \* parser name :-> observed caches (JSON form) after its last call
          lasts,    \* parser name :-> recency maps (specification state)
          allowed,  \* parser name :-> allowed versions
          pend      \* <<>> or << [p, buf] >> : the call in flight
vars == <<l, tms, lasts, allowed, pend>>

EmptyObsTm == [v9 |-> [data |-> <<>>, opts |-> <<>>], ipfix |-> [data |-> <<>>, opts |-> <<>>]]
TmFor(caches, p) == caches[CHOOSE i \in 1..Len(caches) : caches[i].p = p].tmpl

\* one line per finding / coverage record (strings are printed on one line, tuples are wrapped)
Bool(x) == IF x THEN "T" ELSE "F"
JoinSet(S) == FoldLeft(LAMBDA a, x : IF a = "" THEN x ELSE a \o "," \o x, "", SetToSeq(S))
Emit(F) == \A f \in F : PrintT("FINDING~~" \o ToString(l) \o "~~" \o f[1] \o "~~" \o f[2] \o "~~" \o f[3] \o "~~" \o f[4])

IsEvent(e) == l <= Len(Rec) /\ Rec[l].e = e /\ l' = l + 1 /\ TLCSet(1, l)

TraceInit == /\ l = 1 /\ tms = EmptyMap /\ lasts = EmptyMap /\ allowed = EmptyMap /\ pend = <<>>
             /\ TLCSet(1, 0)

EvReset == /\ IsEvent("reset")
           /\ tms' = EmptyMap /\ lasts' = EmptyMap /\ allowed' = EmptyMap /\ pend' = <<>>

EvNew == /\ IsEvent("new")
         /\ tms' = MapPut(tms, Rec[l].p, EmptyObsTm)
         /\ lasts' = MapPut(lasts, Rec[l].p, EmptyLast)
         /\ allowed' = MapPut(allowed, Rec[l].p, ToSet(Rec[l].allowed))
         /\ UNCHANGED pend

EvAllow == /\ IsEvent("allow")
           /\ allowed' = MapPut(allowed, Rec[l].p, ToSet(Rec[l].allowed))
           /\ UNCHANGED <<tms, lasts, pend>>

EvCall == /\ IsEvent("call")
          /\ Rec[l].p \in DOMAIN tms
          /\ pend' = << [p |-> Rec[l].p, buf |-> Rec[l].buf] >>
          /\ UNCHANGED <<tms, lasts, allowed>>

\* nothing learned by one parser instance is visible to another (C06)
Isolation(ev, p) ==
  {<<"C06", "cache", "cross-parser", ev.caches[i].p>> :
      i \in {q \in 1..Len(ev.caches) : ev.caches[q].p # p /\ ev.caches[q].p \in DOMAIN tms
                                        /\ ev.caches[q].tmpl # tms[ev.caches[q].p]}}

EvRet == /\ IsEvent("ret")
         /\ pend # <<>> /\ pend[1].p = Rec[l].p
         /\ LET ev == Rec[l]
                p  == ev.p
                post == TmFor(ev.caches, p)
                j  == Judge(pend[1].buf, allowed[p], tms[p], lasts[p], ev.out, post)
            IN /\ Emit(j.findings \cup Isolation(ev, p))
               /\ PrintT("COV~~" \o ToString(l) \o "~~" \o Bool(j.matched) \o "~~" \o Bool(j.conf) \o "~~"
                         \o JoinSet(j.dev) \o "~~" \o ToString(Len(ev.out)))
               /\ (("DEBUG" \in DOMAIN IOEnv /\ ~j.matched) => PrintT(<<"DEBUG-IDEAL", l, j.run.out, j.run.stop, "ALLDEVS", RunCall(pend[1].buf, ObsTm(tms[p], lasts[p]), allowed[p], AllDevs).out>>))
               /\ tms' = [tms EXCEPT ![p] = post]
               /\ lasts' = [lasts EXCEPT ![p] = j.last]
         /\ pend' = <<>>
         /\ UNCHANGED allowed

\* the specification has no action that explains a panic, an abort, a stack overflow or a hang
EvDied == /\ \E e \in {"panic", "crash", "hang"} : IsEvent(e)
          /\ Emit({<<"C01", "call", Rec[l].e,
                     IF Rec[l].e = "panic" THEN Rec[l].msg
                     ELSE IF Rec[l].e = "crash" THEN "signal " \o ToString(Rec[l].signal) ELSE "timeout">>})
          /\ pend' = <<>>
          /\ UNCHANGED <<tms, lasts, allowed>>

EvOther == /\ \E e \in {"note", "round", "flat", "flatret", "struct"} : IsEvent(e)
           /\ UNCHANGED <<tms, lasts, allowed, pend>>

TraceNext == EvReset \/ EvNew \/ EvAllow \/ EvCall \/ EvRet \/ EvDied \/ EvOther
TraceSpec == TraceInit /\ [][TraceNext]_vars

TraceAccepted ==
  \/ TLCGet(1) = Len(Rec)
  \/ PrintT(<<"UNMATCHED", TLCGet(1) + 1, IF TLCGet(1) + 1 <= Len(Rec) THEN Rec[TLCGet(1) + 1].e ELSE "eof">>) /\ FALSE
=============================================================================
