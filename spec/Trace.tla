-------------------------------- MODULE Trace --------------------------------
(***************************************************************************)
(* Trace validation: replays an ndjson trace recorded from the real code   *)
(* (harness/src/main.rs) through the specification.  One TLC state per     *)
(* event; on every `ret` the monitors of Props.tla are evaluated against   *)
(* the reference run; findings are printed, the observed caches are        *)
(* adopted, and validation continues (DESIGN.md 3.6).                      *)
(*                                                                         *)
(*   TRACE=<file> tlc -workers 1 -config Trace.cfg Trace.tla                *)
(***************************************************************************)
EXTENDS Props, Json, IOUtils

Rec == ndJsonDeserialize(IOEnv.TRACE)

VARIABLES l,        \* index of the next event
          tms,      \* parser name :-> observed caches (JSON form) after its last call
          lasts,    \* parser name :-> recency maps (specification state)
          allowed,  \* parser name :-> allowed versions
          pend,     \* <<>> or << [p, buf] >> : the call in flight
          acc       \* parser name :-> [out, nbytes] accumulated since `new` (relational rounds)
vars == <<l, tms, lasts, allowed, pend, acc>>

EmptyObsTm == [v9 |-> [data |-> <<>>, opts |-> <<>>], ipfix |-> [data |-> <<>>, opts |-> <<>>]]
\* the harness logs a parser's caches in full only when they differ from what it logged last for that parser
CacheEntry(caches, p) == caches[CHOOSE i \in 1..Len(caches) : caches[i].p = p]
TmFor(caches, p) == IF CacheEntry(caches, p).same THEN tms[p] ELSE CacheEntry(caches, p).tmpl

\* one line per finding / coverage record (strings are printed on one line, tuples are wrapped)
Bool(x) == IF x THEN "T" ELSE "F"
JoinSet(S) == FoldLeft(LAMBDA a, x : IF a = "" THEN x ELSE a \o "," \o x, "", SetToSeq(S))
Emit(F) == \A f \in F : PrintT("FINDING~~" \o ToString(l) \o "~~" \o f[1] \o "~~" \o f[2] \o "~~" \o f[3] \o "~~" \o f[4])

IsEvent(e) == l <= Len(Rec) /\ Rec[l].e = e /\ l' = l + 1 /\ TLCSet(1, l)

TraceInit == /\ l = 1 /\ tms = EmptyMap /\ lasts = EmptyMap /\ allowed = EmptyMap /\ pend = <<>> /\ acc = EmptyMap
             /\ TLCSet(1, 0)

EvReset == /\ IsEvent("reset")
           /\ pend = <<>>
           /\ tms' = EmptyMap /\ lasts' = EmptyMap /\ allowed' = EmptyMap /\ pend' = <<>> /\ acc' = EmptyMap

EvNew == /\ IsEvent("new")
         /\ tms' = MapPut(tms, Rec[l].p, EmptyObsTm)
         /\ lasts' = MapPut(lasts, Rec[l].p, EmptyLast)
         /\ allowed' = MapPut(allowed, Rec[l].p, ToSet(Rec[l].allowed))
         /\ acc' = MapPut(acc, Rec[l].p, [out |-> <<>>, nbytes |-> 0, calls |-> <<>>, shas |-> <<>>])
         /\ UNCHANGED pend

EvAllow == /\ IsEvent("allow")
           /\ allowed' = MapPut(allowed, Rec[l].p, ToSet(Rec[l].allowed))
           /\ UNCHANGED <<tms, lasts, pend, acc>>

\* every call is answered (ret, panic, crash, hang ...) before the next one starts: a missing `ret` rejects the trace
EvCall == /\ IsEvent("call")
          /\ pend = <<>>
          /\ Rec[l].p \in DOMAIN tms
          /\ pend' = << [p |-> Rec[l].p, buf |-> Rec[l].buf] >>
          /\ UNCHANGED <<tms, lasts, allowed, acc>>

\* nothing learned by one parser instance is visible to another (C06)
Isolation(ev, p) ==
  {<<"C06", "cache", "cross-parser", ev.caches[i].p>> :
      i \in {q \in 1..Len(ev.caches) : ev.caches[q].p # p /\ ev.caches[q].p \in DOMAIN tms
                                        /\ ~ev.caches[q].same /\ ev.caches[q].tmpl # tms[ev.caches[q].p]}}

\* C17: with parse_unknown_fields off, a data set governed by a template that has a field the library
\* does not know is never reported as decoded records
HasUnknownF(fs) == \E j \in 1..Len(fs) : fs[j].kind = "Unknown" /\ ~fs[j].ent
UnkOfTm(tm) ==
  {<<"v9", tm.v9.data[i].key>> : i \in {q \in 1..Len(tm.v9.data) : HasUnknownF(tm.v9.data[q].def.fields)}}
  \cup {<<"ipfix", tm.ipfix.data[i].key>> : i \in {q \in 1..Len(tm.ipfix.data) : HasUnknownF(tm.ipfix.data[q].def.fields)}}
  \cup {<<"ipfix", tm.ipfix.opts[i].key>> : i \in {q \in 1..Len(tm.ipfix.opts) : HasUnknownF(tm.ipfix.opts[q].def.fields)}}
\* walk the observed sets in order: the template that governs a data set is the one in force when the
\* set was decoded (the cache before the call, updated by the template sets reported before it)
UnknownNotDecoded(out, pre) ==
  IF PufOn THEN {}
  ELSE LET sets == Flatten([i \in 1..Len(out) |->
                              IF out[i].k \in {"v9", "ipfix"}
                                THEN [q \in 1..Len(out[i].sets) |-> [proto |-> out[i].k, st |-> out[i].sets[q]]] ELSE <<>>])
           step(ac, x) ==
             LET st == x.st  pr == x.proto IN
             IF st.k = "tmpl" \/ (st.k = "otmpl" /\ pr = "ipfix")
               THEN [ac EXCEPT !.unk = (ac.unk \ {<<pr, st.recs[r].id>> : r \in 1..Len(st.recs)})
                                         \cup {<<pr, st.recs[r].id>> : r \in {z \in 1..Len(st.recs) : HasUnknownF(st.recs[z].fields)}}]
             ELSE IF st.k = "otmpl" THEN [ac EXCEPT !.unk = ac.unk \ {<<pr, st.recs[r].id>> : r \in 1..Len(st.recs)}]
             ELSE IF <<pr, st.id>> \in ac.unk /\ (st.k = "data" \/ pr = "ipfix")
                     /\ (IF pr = "v9" THEN st.recs # <<>> ELSE st.maps # <<>>)
               THEN [ac EXCEPT !.bad = ac.bad \cup {<<"C17", pr \o "." \o st.k, "unknown-field-decoded", "">>}]
             ELSE ac
       IN FoldLeft(step, [unk |-> UnkOfTm(pre), bad |-> {}], sets).bad

(***************************************************************************)
(* C15: the cost model.  Units(out) counts what a result holds: items,     *)
(* sets, records, values and bytes.  Received(buf, tm) is what was         *)
(* received to produce it: the buffer plus the wire size of the cached     *)
(* templates.  The measured numbers (KiB, so that they fit TLC's integers) *)
(* come from the counting allocator of the harness.                        *)
(*   CostA : allocated <= K1 * |buf| + K2 * |json(result)| + C0            *)
(*   CostB : Units(out) <= K3 * Received + C1                              *)
(***************************************************************************)
K1 == 64   K2 == 32   C0kib == 256   K3 == 4   C1 == 64
ValUnits(vals) == Len(vals) + SumSeq([i \in 1..Len(vals) |-> Len(vals[i].v.b)])
SetUnits(proto, st) ==
  1 + Len(st.pad) +
  (CASE "nval" \in DOMAIN st -> st.nrec + st.nval + st.vbytes          \* summarised by the harness (light projection)
     [] st.k = "data" /\ proto = "v9" -> Len(st.recs) + SumSeq([r \in 1..Len(st.recs) |-> ValUnits(st.recs[r])])
     [] st.k \in {"data", "odata"} /\ proto = "ipfix" -> Len(st.maps) + SumSeq([r \in 1..Len(st.maps) |-> ValUnits(st.maps[r])])
     [] st.k = "odata" -> Len(st.scope) + Len(st.opts) + SumSeq([i \in 1..Len(st.scope) |-> Len(st.scope[i].b)])
                          + SumSeq([i \in 1..Len(st.opts) |-> Len(st.opts[i].b)])
     [] st.k = "tmpl" -> SumSeq([r \in 1..Len(st.recs) |-> 1 + Len(st.recs[r].fields)])
     [] st.k = "otmpl" /\ proto = "v9" -> SumSeq([r \in 1..Len(st.recs) |-> 1 + Len(st.recs[r].scope) + Len(st.recs[r].opts)])
     [] OTHER -> SumSeq([r \in 1..Len(st.recs) |-> 1 + Len(st.recs[r].fields)]))
ItemUnits(it) == CASE it.k \in {"v5", "v7"} -> 1 + Len(it.recs) * 21
                   [] it.k = "err" -> 1 + Len(it.rem) + Len(it.inner)
                   [] OTHER -> 1 + SumSeq([s \in 1..Len(it.sets) |-> SetUnits(it.k, it.sets[s])])
Units(out) == SumSeq([i \in 1..Len(out) |-> ItemUnits(out[i])])
DefWire(d) == 6 + 8 * (IF "fields" \in DOMAIN d THEN Len(d.fields) ELSE Len(d.scope) + Len(d.opts))
TmWire(tm) == SumSeq([i \in 1..Len(tm.v9.data) |-> DefWire(tm.v9.data[i].def)]) + SumSeq([i \in 1..Len(tm.v9.opts) |-> DefWire(tm.v9.opts[i].def)])
            + SumSeq([i \in 1..Len(tm.ipfix.data) |-> DefWire(tm.ipfix.data[i].def)]) + SumSeq([i \in 1..Len(tm.ipfix.opts) |-> DefWire(tm.ipfix.opts[i].def)])
\* the known way to inflate a result: templates with zero-length fields (their acceptance is pinned by a test)
HasZeroLen(tm) ==
  \/ \E i \in 1..Len(tm.v9.data) : \E j \in 1..Len(tm.v9.data[i].def.fields) : tm.v9.data[i].def.fields[j].len = 0
  \/ \E i \in 1..Len(tm.ipfix.data) : \E j \in 1..Len(tm.ipfix.data[i].def.fields) : tm.ipfix.data[i].def.fields[j].len = 0
  \/ \E i \in 1..Len(tm.ipfix.opts) : \E j \in 1..Len(tm.ipfix.opts[i].def.fields) : tm.ipfix.opts[i].def.fields[j].len = 0
Shape(pre) == IF HasZeroLen(pre) THEN "zero-length-template" ELSE "other"
\* on `ret`: the result is at hand, count what it holds
CostFindings(buf, ev, pre) ==
  LET units == Units(ev.out)
      recv == Len(buf) + TmWire(pre) IN
  IF units > K3 * recv + C1
    THEN {<<"C15", "cost", "units", Shape(pre)>>}
    ELSE {}

\* on `parsed` (written the moment parse_bytes returns): the allocator's numbers
\*   CostA : allocated during the call <= K1 * |buf| + K2 * (bytes the result holds) + C0
\*   CostH : bytes the result holds    <= KH * Received + CH        (KH: one decoded value per input byte, generously)
KH == 1024   CHkib == 256
KM == 4      CMkib == 1024
AllocFindings(buf, ev, pre) ==
  LET recv == Len(buf) + TmWire(pre) IN
  (IF ev.alloc.total_kib > (K1 * Len(buf)) \div 1024 + K2 * ev.alloc.held_kib + C0kib
     THEN {<<"C15", "cost", "alloc", IF ev.nout > 64 THEN "many-packets" ELSE "few-packets">>} ELSE {})
  \cup (IF ev.alloc.held_kib > (KH * recv) \div 1024 + CHkib THEN {<<"C15", "cost", "held", Shape(pre)>>} ELSE {})
  \* CostM : bytes that reallocations may have had to copy (old size of every block passed to realloc) <= KM * allocated + CM.
  \*         Geometric growth keeps this below the allocated total (measured: <= 1.0 x); growing a vector by one element
  \*         per packet / set / record makes it quadratic ("cost does not grow quadratically with the number of ...").
  \cup (IF "moved_kib" \in DOMAIN ev.alloc /\ ev.alloc.moved_kib > KM * ev.alloc.total_kib + CMkib
          THEN {<<"C15", "cost", "realloc-copy", IF ev.nout > 64 THEN "many-packets" ELSE "few-packets">>} ELSE {})

EvParsed == /\ IsEvent("parsed")
            /\ pend # <<>> /\ pend[1].p = Rec[l].p
            /\ Emit(AllocFindings(pend[1].buf, Rec[l], tms[Rec[l].p]))
            /\ UNCHANGED <<tms, lasts, allowed, pend, acc>>

\* the result was too large for the harness to project: only the caches are adopted
EvRetBig == /\ IsEvent("retbig")
            /\ pend # <<>> /\ pend[1].p = Rec[l].p
            /\ tms' = [tms EXCEPT ![Rec[l].p] = TmFor(Rec[l].caches, Rec[l].p)]
            /\ pend' = <<>>
            /\ UNCHANGED <<lasts, allowed, acc>>

\* the harness (not the library) failed while projecting a result: no verdict, the session is abandoned
EvToolCrash == /\ IsEvent("toolcrash")
               /\ PrintT("TOOL~~" \o ToString(l) \o "~~harness failed while projecting a result")
               /\ pend' = <<>>
               /\ UNCHANGED <<tms, lasts, allowed, acc>>

(***************************************************************************)
(* C16: serialization succeeded, is well-formed, is stable, and the leaf   *)
(* values read back from the JSON text (digits kept as text) are exactly   *)
(* the leaf values of the decoded structure, in order.                     *)
(***************************************************************************)
JsonFindings(js) ==
  IF js.st = "off" THEN {}
  ELSE IF js.st = "panic" THEN {<<"C01", "post", "json", "panic">>, <<"C16", "json", "panic", "">>}
  ELSE IF js.st # "ok" THEN {<<"C16", "json", "failed", js.st>>}
  ELSE (IF ~js.wellformed THEN {<<"C16", "json", "malformed", "">>} ELSE {})
       \cup (IF ~js.twice_equal THEN {<<"C16", "json", "unstable", "">>} ELSE {})
       \cup (IF js.jsha # js.ssha \/ js.nj # js.ns
               THEN {<<"C16", "json", "differs",
                       IF js.ds = "f:nonfinite" /\ js.dj = "null" THEN "Float64:nonfinite"
                       ELSE IF js.nj # js.ns THEN "leaf-count" ELSE "value">>}
               ELSE {})

\* LIGHT=1 in the environment: only totality (C01), accounting (C02) and cost (C15) are evaluated - used for
\* the adversarial 64 KiB inputs, where the full reference decode is left to the thorough tier
Light == "LIGHT" \in DOMAIN IOEnv /\ IOEnv.LIGHT = "1"

EvRetLight == /\ Light /\ IsEvent("ret")
              /\ pend # <<>> /\ pend[1].p = Rec[l].p
              /\ LET ev == Rec[l]  p == ev.p  acct == Accounting(pend[1].buf, ev.out, allowed[p]) IN
                   /\ Emit((IF acct = "" THEN {} ELSE {<<"C02", "framing", acct, "">>})
                           \cup CostFindings(pend[1].buf, ev, tms[p])
                           \cup JsonFindings(ev.json)
                           \cup {<<"C01", "post", "export", "panic">> : i \in {q \in 1..Len(ev.out) : ev.out[q].exp.st = "panic"}}
                           \cup {<<"C01", "post", "common", "panic">> : i \in {q \in 1..Len(ev.out) : ev.out[q].common.st = "panic"}})
                   /\ PrintT("COV~~" \o ToString(l) \o "~~F~~F~~light~~" \o ToString(Len(ev.out)))
                   /\ tms' = [tms EXCEPT ![p] = TmFor(ev.caches, p)]
              /\ pend' = <<>>
              /\ UNCHANGED <<allowed, lasts, acc>>

\* shape of the reference run: item kinds in order, why it stopped, why the error (if any) arose,
\* number of IPFIX sets the reference dropped for an unknown template
Shape0(run) ==
  LET ks == FoldLeft(LAMBDA a, it : a \o (IF a = "" THEN "" ELSE ",") \o it.k, "", run.out)
      n == Len(run.out)
      why == IF n > 0 /\ run.out[n].k = "err" THEN run.out[n].why ELSE ""
      unk == Cardinality({<<i, d>> \in (1..n) \X (1..8) :
                            run.out[i].k = "ipfix" /\ d <= Len(run.out[i].dropped) /\ run.out[i].dropped[d].why = "unknown-template"})
  IN ks \o "|" \o run.stop \o "|" \o why \o "|" \o ToString(unk)

\* what the reference says about a buffer delivered alone: "one" = exactly one packet, decoded without error, that ends
\* where the buffer ends (a V9 packet: announcing as many flowsets as it holds); "err" = an error at its first byte
RefOne(run, n) ==
  LET o == run.out IN
  IF Len(o) # 1 THEN "other"
  ELSE IF o[1].k = "err" THEN (IF o[1].s = 1 THEN "err" ELSE "other")
  ELSE IF run.stop = "end" /\ o[1].e = n /\ (o[1].k = "v9" => o[1].hdr.count = Len(o[1].sets)) THEN "one" ELSE "other"

EvRet == /\ ~Light /\ IsEvent("ret")
         /\ pend # <<>> /\ pend[1].p = Rec[l].p
         /\ LET ev == Rec[l]
                p  == ev.p
                post == TmFor(ev.caches, p)
                j  == Judge(pend[1].buf, allowed[p], tms[p], lasts[p], ev.out, post)
            IN /\ Emit(j.findings \cup Isolation(ev, p) \cup UnknownNotDecoded(ev.out, tms[p])
                       \* C12, last sentence: the unknown-version error carries the unparsed bytes (the library: those
                       \* after the version field; the whole rest of the buffer would also fit the statement)
                       \cup {<<"C12", "filter", "unknown-version", "payload">> :
                               i \in {q \in 1..Len(ev.out) : /\ ev.out[q].k = "err" /\ ev.out[q].kind = "UnknownVersion"
                                                              /\ ev.out[q].inner # ev.out[q].rem
                                                              /\ ev.out[q].inner # Rest(ev.out[q].rem, 3)}}
                       \* C01's second sentence holds for every returned value, whether or not the reference explains it
                       \cup {<<"C01", "post", "export", "panic">> : i \in {q \in 1..Len(ev.out) : ev.out[q].exp.st = "panic"}}
                       \cup {<<"C01", "post", "common", "panic">> : i \in {q \in 1..Len(ev.out) : ev.out[q].common.st = "panic"}}
                       \* (and a conversion that panics is not the conversion C08-C10 / C13 describe)
                       \cup {<<(CASE ev.out[i].k \in {"v5", "v7"} -> "C08" [] ev.out[i].k = "v9" -> "C09" [] OTHER -> "C10"), "msg", "export", "panic">> :
                               i \in {q \in 1..Len(ev.out) : ev.out[q].exp.st = "panic" /\ ev.out[q].k # "err"}}
                       \cup {<<"C13", "common", "packet", "panic">> : i \in {q \in 1..Len(ev.out) : ev.out[q].common.st = "panic"}}
                       \cup CostFindings(pend[1].buf, ev, tms[p]) \cup JsonFindings(ev.json))
               \* coverage record: which antecedents held on this event (decided by the reference run)
               /\ PrintT("COV~~" \o ToString(l) \o "~~" \o Bool(j.matched) \o "~~" \o Bool(j.conf) \o "~~"
                         \o JoinSet(j.dev) \o "~~" \o ToString(Len(ev.out)) \o "~~" \o Shape0(j.run))
               /\ (("DEBUG" \in DOMAIN IOEnv /\ ~j.matched) => PrintT(<<"DEBUG-IDEAL", l, j.run.out, j.run.stop, "ALLDEVS", RunCall(pend[1].buf, ObsTm(tms[p], lasts[p]), allowed[p], AllDevs).out>>))
               /\ tms' = [tms EXCEPT ![p] = post]
               /\ lasts' = [lasts EXCEPT ![p] = j.last]
               /\ acc' = [acc EXCEPT ![p] = [out |-> @.out \o ev.out, nbytes |-> @.nbytes + Len(pend[1].buf),
                                             calls |-> Append(@.calls, [n |-> Len(pend[1].buf), out |-> ev.out, buf |-> pend[1].buf,
                                                                        ref |-> RefOne(j.run, Len(pend[1].buf))]),
                                             shas |-> Append(@.shas, ev.json.sha)]]
         /\ pend' = <<>>
         /\ UNCHANGED allowed

\* the specification has no action that explains a panic, an abort, a stack overflow or a hang
EvDied == /\ \E e \in {"panic", "crash", "hang"} : IsEvent(e)
          \* memory exhaustion by an oversized result is C15's subject (C01 says so); everything else is C01's
          /\ Emit({IF Rec[l].e = "crash" /\ Rec[l].cause = "oom" THEN <<"C15", "cost", "oom", "">>
                   ELSE <<"C01", "call", Rec[l].e,
                          IF Rec[l].e = "panic" THEN Rec[l].msg
                          ELSE IF Rec[l].e = "crash" THEN Rec[l].cause \o " signal " \o ToString(Rec[l].signal) ELSE "timeout">>}
                  \* a call that does not return does not decode what the buffer holds either: the decode property of
                  \* every packet kind the reference finds in the buffer is violated as well
                  \cup (IF pend # <<>> /\ ~Light /\ ~(Rec[l].e = "crash" /\ Rec[l].cause = "oom")
                        THEN LET p == pend[1].p
                                 run == RunCall(pend[1].buf, ObsTm(tms[p], lasts[p]), allowed[p], {})
                                 ks == {run.out[i].k : i \in 1..Len(run.out)} IN
                             {<<"C03", "call", "no-result", k>> : k \in ks \cap {"v5", "v7"}}
                             \cup {<<"C04", "call", "no-result", k>> : k \in ks \cap {"v9"}}
                             \cup {<<"C05", "call", "no-result", k>> : k \in ks \cap {"ipfix"}}
                        ELSE {}))
          /\ pend' = <<>>
          /\ UNCHANGED <<tms, lasts, allowed, acc>>

(***************************************************************************)
(* Relational rounds: observed against observed, no reference decoder.     *)
(*   chain  (C11, C06): parsers a and b were fed the same packet sequence  *)
(*          under different cuts at packet boundaries                      *)
(*   filter (C12): a has allowed set S, b allows everything and was fed    *)
(*          the same buffers, c allows everything and was fed only the     *)
(*          bytes before the first packet whose version is not in S        *)
(*   trunc  (C14): a was fed packets followed by a truncated packet in one *)
(*          buffer, b only the packets before it                           *)
(***************************************************************************)
NoErr(out) == \A i \in 1..Len(out) : out[i].k # "err"
SelfDelim(out) == \A i \in 1..Len(out) : out[i].k = "v9" => out[i].hdr.count = Len(out[i].sets)
Lead(out, S) == LET k == FirstIdx(Len(out), LAMBDA q : ObsVersion(out[q]) \notin S) IN
                IF k = 0 THEN out ELSE SubSeq(out, 1, k - 1)
RoundFindings(ev) ==
  IF ev.kind = "chain" THEN
    \* b was fed one packet per call; the reference run of each of those calls (RefOne) certifies that the stream is a
    \* sequence of self-delimiting packets, each decoding without error when delivered alone (C11's antecedent).
    \* (Certifying by b's own observations would let a change that breaks the framing of single packets switch
    \* the round off.)
    LET A == acc[ev.a]  B == acc[ev.b]
        \* (the last packet alone may be one that is reported as an error: chaining stops there either way)
        cert == \A i \in 1..Len(B.calls) :
                  \/ B.calls[i].ref = "one"
                  \/ i = Len(B.calls) /\ B.calls[i].ref = "err" IN
    IF A.nbytes = B.nbytes /\ B.calls # <<>> /\ cert
      THEN (IF A.out # B.out THEN {<<"C11", "chain", "results", "">>} ELSE {})
           \cup (IF tms[ev.a] # tms[ev.b] THEN {<<"C11", "chain", "cache", "">>, <<"C06", "partition", "cache", "">>} ELSE {})
      ELSE {}
  ELSE IF ev.kind = "filter" THEN
    LET A == acc[ev.a]  B == acc[ev.b]  C == acc[ev.c]
        S == allowed[ev.a]
        lead == Lead(B.out, S)
        np == NumPackets(lead)
        used == SumSeq([i \in 1..np |-> ObsWire(lead[i])]) IN
    (IF A.out # lead THEN {<<"C12", "filter", "results", "">>} ELSE {})
    \* the twin c must have been fed exactly the bytes before the first disallowed packet (recomputed here)
    \cup (IF Len(lead) = Len(B.out) \/ (np = Len(lead) /\ C.nbytes = used)
           THEN (IF tms[ev.a] # tms[IF Len(lead) = Len(B.out) THEN ev.b ELSE ev.c] THEN {<<"C12", "filter", "cache", "">>} ELSE {})
           ELSE {})
  ELSE IF ev.kind = "twins" THEN
    \* a and b were fed exactly the same calls: same results, same caches, same JSON text (C16, C06)
    LET A == acc[ev.a]  B == acc[ev.b] IN
    IF [i \in 1..Len(A.calls) |-> A.calls[i].buf] = [i \in 1..Len(B.calls) |-> B.calls[i].buf]
      THEN (IF A.shas # B.shas THEN {<<"C16", "json", "cross-parser", "">>} ELSE {})
           \cup (IF A.out # B.out \/ tms[ev.a] # tms[ev.b] THEN {<<"C06", "twins", "results-or-cache", "">>} ELSE {})
      ELSE {}
  ELSE IF ev.kind = "late" THEN
    \* C07, last clause: the last three calls of a were data for a template not held, its template, the same data bytes;
    \* if the reference decodes the third call as one packet without error, so must the implementation, with its sets
    LET A == acc[ev.a]  n == Len(A.calls) IN
    IF n >= 3 /\ A.calls[n].buf = A.calls[n - 2].buf /\ A.calls[n].ref = "one"
      THEN LET o == A.calls[n].out IN
           (IF Len(o) # 1 \/ o[1].k = "err" \/ (o[1].k \in {"v9", "ipfix"} /\ o[1].sets = <<>>)
              THEN {<<"C07", IF o # <<>> /\ o[1].k = "ipfix" THEN "ipfix" ELSE "v9", "unknown-template", "late-template-not-decoding">>}
              ELSE {})
      ELSE {}
  ELSE IF ev.kind = "twinsout" THEN
    \* a and b were fed the same buffers since the last mark and allow the same versions: same results
    LET A == acc[ev.a]  B == acc[ev.b] IN
    IF [i \in 1..Len(A.calls) |-> A.calls[i].buf] = [i \in 1..Len(B.calls) |-> B.calls[i].buf] /\ allowed[ev.a] = allowed[ev.b]
         /\ tms[ev.a] = tms[ev.b]
      THEN (IF A.out # B.out THEN {<<"C12", "filter", "results-after-widening", "">>} ELSE {})
      ELSE {}
  ELSE IF ev.kind = "trunc" THEN
    \* a was fed, in one call, the bytes b was fed followed by a packet that TruncatedAt says is cut
    LET A == acc[ev.a]  B == acc[ev.b]  n == Len(A.out) IN
    IF NoErr(B.out) /\ SumSeq([i \in 1..Len(B.out) |-> ObsWire(B.out[i])]) = B.nbytes /\ A.nbytes > B.nbytes
         /\ Len(A.calls) = 1 /\ TruncatedAt(A.calls[1].buf, B.nbytes + 1)
      THEN (IF n = 0 \/ A.out[n].k # "err" \/ SubSeq(A.out, 1, n - 1) # B.out
              THEN {<<"C14", "trunc", "earlier-items", "">>} ELSE {})
           \cup (IF n > 0 /\ A.out[n].k = "err" /\ A.out[n].ver \in {5, 7, 10} /\ tms[ev.a] # tms[ev.b]
                   THEN {<<"C14", "trunc", "cache", "">>} ELSE {})
      ELSE {}
  ELSE {}

\* did the antecedent of the round hold (coverage only; the same conditions as in RoundFindings)
RoundAnte(ev) ==
  IF ev.kind = "chain" THEN
    LET A == acc[ev.a]  B == acc[ev.b] IN
    A.nbytes = B.nbytes /\ B.calls # <<>>
      /\ \A i \in 1..Len(B.calls) : B.calls[i].ref = "one" \/ (i = Len(B.calls) /\ B.calls[i].ref = "err")
  ELSE IF ev.kind = "filter" THEN TRUE
  ELSE IF ev.kind = "late" THEN
    LET A == acc[ev.a]  n == Len(A.calls) IN n >= 3 /\ A.calls[n].buf = A.calls[n - 2].buf /\ A.calls[n].ref = "one"
  ELSE IF ev.kind \in {"twins", "twinsout"} THEN
    LET A == acc[ev.a]  B == acc[ev.b] IN
    [i \in 1..Len(A.calls) |-> A.calls[i].buf] = [i \in 1..Len(B.calls) |-> B.calls[i].buf]
      /\ (ev.kind = "twinsout" => allowed[ev.a] = allowed[ev.b] /\ tms[ev.a] = tms[ev.b])
  ELSE IF ev.kind = "trunc" THEN
    LET A == acc[ev.a]  B == acc[ev.b] IN
    NoErr(B.out) /\ SumSeq([i \in 1..Len(B.out) |-> ObsWire(B.out[i])]) = B.nbytes /\ A.nbytes > B.nbytes
      /\ Len(A.calls) = 1 /\ TruncatedAt(A.calls[1].buf, B.nbytes + 1)
  ELSE FALSE

\* kind "mark": forget what was accumulated so far (the shared prior history of a round)
EvRound == /\ IsEvent("round")
           /\ Emit(RoundFindings(Rec[l]))
           /\ PrintT("ROUND~~" \o ToString(l) \o "~~" \o Rec[l].kind \o "~~" \o Bool(RoundAnte(Rec[l])))
           /\ acc' = IF Rec[l].kind = "mark" THEN [p \in DOMAIN acc |-> [out |-> <<>>, nbytes |-> 0, calls |-> <<>>, shas |-> <<>>]] ELSE acc
           /\ UNCHANGED <<tms, lasts, allowed, pend>>

\* C13, last clause: parse_bytes_as_netflow_common_flowsets = the in-order concatenation of the common
\* flows of the non-error packets of the buffer (per-packet views taken on a twin with the same caches)
EvFlat == /\ IsEvent("flat")
          /\ pend = <<>>
          /\ pend' = << [p |-> Rec[l].p, buf |-> Rec[l].buf] >>
          /\ UNCHANGED <<tms, lasts, allowed, acc>>
EvFlatRet == /\ IsEvent("flatret")
             /\ pend # <<>> /\ pend[1].p = Rec[l].p
             /\ Emit(IF Rec[l].flows = Flatten(Rec[l].per_item) THEN {} ELSE {<<"C13", "flat", "differs", "">>})
             /\ tms' = [tms EXCEPT ![Rec[l].p] = TmFor(Rec[l].caches, Rec[l].p)]
             /\ pend' = <<>>
             /\ UNCHANGED <<lasts, allowed, acc>>

\* C08, second half: a V5/V7 structure whose count equals its number of records exports to exactly the
\* bytes the specification's encoder produces, and parsing those bytes yields an equal structure
StructFindings(ev) ==
  LET ver == ev.v
      it == ev.item
      kind == IF ver = 5 THEN "v5" ELSE "v7"
      hl == FixedHdrLayout(ver)
      hdr == [n \in LayoutNames(hl) |-> IF n = "count" THEN B16(it.hdr.count) ELSE it.hdr[n]]
      want == EncodeFixed(ver, hdr, it.recs) IN
  IF it.hdr.count # Len(it.recs) THEN {}
  ELSE (IF ev.bytes # want
          THEN LET d == FirstDiffOff(ev.bytes, want) IN
               {<<"C08", kind, "struct.encode", IF d < 0 THEN "length" ELSE FixedFieldAt(ver, d)>>}
          ELSE {})
       \cup (IF Len(ev.back) # 1 \/ ev.back[1].k # kind THEN {<<"C08", kind, "struct.roundtrip", "not-one-packet">>}
             ELSE IF ev.back[1].hdr # it.hdr \/ ev.back[1].recs # it.recs THEN {<<"C08", kind, "struct.roundtrip", "differs">>}
             ELSE {})
EvStruct == /\ IsEvent("struct")
            /\ Emit(StructFindings(Rec[l]))
            /\ UNCHANGED <<tms, lasts, allowed, pend, acc>>

EvOther == /\ IsEvent("note")
           /\ UNCHANGED <<tms, lasts, allowed, pend, acc>>

TraceNext == EvReset \/ EvNew \/ EvAllow \/ EvCall \/ EvParsed \/ EvRet \/ EvRetLight \/ EvRetBig \/ EvToolCrash
             \/ EvDied \/ EvRound \/ EvFlat \/ EvFlatRet \/ EvStruct \/ EvOther
TraceSpec == TraceInit /\ [][TraceNext]_vars

TraceAccepted ==
  \/ TLCGet(1) = Len(Rec)
  \/ PrintT(<<"UNMATCHED", TLCGet(1) + 1, IF TLCGet(1) + 1 <= Len(Rec) THEN Rec[TLCGet(1) + 1].e ELSE "eof">>) /\ FALSE
=============================================================================
