SPECIFICATION Spec
CONSTANTS
  Parsers = {"A"}
  Buffers <- MCBuffers
  AllowedSets = {}
  MaxCalls = 1
  Devs = {}
  MaxFields = 2
VIEW View
ACTION_CONSTRAINT EmitVector
INVARIANTS Total AccountingInv MicroEqualsMacro DecodeIsInverse ExportIsIdentity
PROPERTIES Progress NeverEvicted OnlyTemplatesWrite DataUsesCache
CHECK_DEADLOCK FALSE
