--------------------------------- MODULE V9 ---------------------------------
(***************************************************************************)
(* NetFlow V9 (RFC 3954) framing and decoding as pure step functions.      *)
(*                                                                         *)
(* A cache for one protocol is a record                                    *)
(*    [data |-> id :-> definition, opts |-> id :-> definition,              *)
(*     last |-> id :-> "data" | "opts"]                                    *)
(* `last` is the recency the property C06 speaks about ("the most recent   *)
(* template of that id"): it is specification state only.                  *)
(*                                                                         *)
(* A step consumes exactly one flowset.  The bounded models use the step   *)
(* as an action of its own (so invariants are evaluated between any two    *)
(* flowsets); the trace specification folds the same step over a packet.   *)
(***************************************************************************)
EXTENDS Bytes

EmptyMap == [x \in {} |-> 0]
EmptyCache == [data |-> EmptyMap, opts |-> EmptyMap, last |-> EmptyMap]

MapPut(m, key, v) == [x \in (DOMAIN m) \cup {key} |-> IF x = key THEN v ELSE m[x]]

\* insert every record of a template flowset, in order: a later record of the same id wins
PutRecs(c, kind, recs) ==
  FoldLeft(LAMBDA acc, r : [acc EXCEPT ![kind] = MapPut(acc[kind], r.id, r),
                                       !.last  = MapPut(acc.last, r.id, kind)],
           c, recs)

\* a field specifier; V9 has no enterprise fields, the two extra keys keep one shape for both protocols
Spec9(t, ln) == [t |-> t, len |-> ln, ent |-> FALSE, pen |-> <<>>]

-----------------------------------------------------------------------------
\* Template records: id(2) count(2) count * (type(2) len(2)); greedy while a complete record fits.
V9TmplRecs(b, bs, bl) ==
  LET step(acc, i) ==
        IF acc.done THEN acc
        ELSE LET o == acc.o  rem == bl - o IN
             IF rem < 4 THEN [acc EXCEPT !.done = TRUE]
             ELSE LET id == U16At(b, bs + o)  c == U16At(b, bs + o + 2) IN
                  IF rem < 4 + 4 * c THEN [acc EXCEPT !.done = TRUE]
                  ELSE [o |-> o + 4 + 4 * c, done |-> FALSE,
                        recs |-> Append(acc.recs,
                           [id |-> id, count |-> c,
                            fields |-> [j \in 1..c |-> Spec9(U16At(b, bs + o + 4 * j), U16At(b, bs + o + 4 * j + 2))]])]
      r == FoldLeft(step, [o |-> 0, done |-> FALSE, recs |-> <<>>], Range1(bl \div 4 + 1))
  IN [recs |-> r.recs, pad |-> Slice(b, bs + r.o, bl - r.o)]

\* Options template records: id(2) scopeLen(2) optLen(2) scopeLen/4 scope specs, optLen/4 option specs.
V9OtmplRecs(b, bs, bl) ==
  LET step(acc, i) ==
        IF acc.done THEN acc
        ELSE LET o == acc.o  rem == bl - o IN
             IF rem < 6 THEN [acc EXCEPT !.done = TRUE]
             ELSE LET id == U16At(b, bs + o)  sl == U16At(b, bs + o + 2)  ol == U16At(b, bs + o + 4)
                      ns == sl \div 4  no == ol \div 4 IN
                  IF rem < 6 + 4 * (ns + no) THEN [acc EXCEPT !.done = TRUE]
                  ELSE [o |-> o + 6 + 4 * (ns + no), done |-> FALSE,
                        recs |-> Append(acc.recs,
                           [id |-> id, scope_len |-> sl, opt_len |-> ol,
                            scope |-> [j \in 1..ns |-> Spec9(U16At(b, bs + o + 2 + 4 * j), U16At(b, bs + o + 4 + 4 * j))],
                            opts  |-> [j \in 1..no |-> Spec9(U16At(b, bs + o + 2 + 4 * (ns + j)),
                                                              U16At(b, bs + o + 4 + 4 * (ns + j)))]])]
      r == FoldLeft(step, [o |-> 0, done |-> FALSE, recs |-> <<>>], Range1(bl \div 6 + 1))
  IN [recs |-> r.recs, pad |-> Slice(b, bs + r.o, bl - r.o)]

FieldLens(fs) == [j \in 1..Len(fs) |-> fs[j].len]
RecSize(fs)   == SumSeq(FieldLens(fs))

\* Data flowset: floor(body / record size) records; value j of record r is exactly the len_j
\* bytes at the running offset; the rest is padding.
V9DataRecs(b, bs, bl, fs) ==
  LET size == RecSize(fs)
      offs == Offsets(FieldLens(fs))
      n    == IF size = 0 THEN 0 ELSE bl \div size
  IN [recs |-> [r \in 1..n |-> [j \in 1..Len(fs) |-> Slice(b, bs + (r - 1) * size + offs[j], fs[j].len)]],
      pad  |-> Slice(b, bs + n * size, bl - n * size)]

\* Options data flowset: records of scope values followed by option values.
V9OdataRecs(b, bs, bl, def) ==
  LET fs   == def.scope \o def.opts
      size == RecSize(fs)
      offs == Offsets(FieldLens(fs))
      ns   == Len(def.scope)
      n    == IF size = 0 THEN 0 ELSE bl \div size
  IN [recs |-> [r \in 1..n |->
                  [scope |-> [j \in 1..ns |-> Slice(b, bs + (r - 1) * size + offs[j], fs[j].len)],
                   opts  |-> [j \in 1..Len(def.opts) |->
                                 Slice(b, bs + (r - 1) * size + offs[ns + j], fs[ns + j].len)]]],
      pad  |-> Slice(b, bs + n * size, bl - n * size)]

-----------------------------------------------------------------------------
\* Which definition governs flowset id?   "recency" is the property (C06);
\* "optsfirst" is what the implementation does (named deviation KindPriorityNotRecency).
Governing(c, id, prio) ==
  IF id \in DOMAIN c.opts /\ id \in DOMAIN c.data
    THEN IF prio = "recency" THEN (IF id \in DOMAIN c.last THEN c.last[id] ELSE "data")
         ELSE IF prio = "optsfirst" THEN "opts" ELSE "data"
  ELSE IF id \in DOMAIN c.opts THEN "opts"
  ELSE IF id \in DOMAIN c.data THEN "data"
  ELSE "none"

(***************************************************************************)
(* One flowset.  st = [pos, budget, sets, c, status, why, used]            *)
(*   status "run": more to do, "ok": packet complete, "err": packet error  *)
(* dev: set of named deviations in force.                                  *)
(***************************************************************************)
V9SetStep(b, st, dev) ==
  IF st.status # "run" THEN st
  ELSE IF st.budget = 0 \/ Avail(b, st.pos) = 0 THEN [st EXCEPT !.status = "ok"]
  ELSE IF Avail(b, st.pos) < 4 THEN [st EXCEPT !.status = "err", !.why = "set-header-cut"]
  ELSE
    LET pos == st.pos
        id  == U16At(b, pos)
        L   == U16At(b, pos + 2)
        bl  == Max2(L, 4) - 4
        bs  == pos + 4
        base == [id |-> id, len |-> L, s |-> pos, e |-> bs + bl - 1]
        next(set, c2, u) == [st EXCEPT !.pos = bs + bl, !.budget = st.budget - 1,
                                        !.sets = Append(st.sets, set), !.c = c2, !.used = st.used \cup u]
    IN
    IF Avail(b, bs) < bl THEN [st EXCEPT !.status = "err", !.why = "set-body-cut"]
    ELSE IF id = 0 THEN
      LET t == V9TmplRecs(b, bs, bl) IN
      next(base @@ [k |-> "tmpl", recs |-> t.recs, pad |-> t.pad], PutRecs(st.c, "data", t.recs), {})
    ELSE IF id = 1 THEN
      LET t == V9OtmplRecs(b, bs, bl) IN
      next(base @@ [k |-> "otmpl", recs |-> t.recs, pad |-> t.pad], PutRecs(st.c, "opts", t.recs), {})
    ELSE
      LET g == Governing(st.c, id, IF "KindPriorityNotRecency" \in dev THEN "optsfirst" ELSE "recency")
          u == IF g # Governing(st.c, id, "recency") THEN {"KindPriorityNotRecency"} ELSE {} IN
      IF g = "none" THEN [st EXCEPT !.status = "err", !.why = "unknown-template"]
      ELSE IF g = "data" THEN
        LET def == st.c.data[id] IN
        IF RecSize(def.fields) = 0 THEN [st EXCEPT !.status = "err", !.why = "zero-size-template"]
        ELSE LET d == V9DataRecs(b, bs, bl, def.fields) IN
             next(base @@ [k |-> "data", recs |-> d.recs, pad |-> d.pad, def |-> def], st.c, u)
      ELSE
        LET def == st.c.opts[id] IN
        IF RecSize(def.scope \o def.opts) = 0 THEN [st EXCEPT !.status = "err", !.why = "zero-size-template"]
        ELSE LET ideal == V9OdataRecs(b, bs, bl, def)
                 size  == RecSize(def.scope \o def.opts)
                 \* deviation V9OptionsDataFirstRecordOnly: one record, everything after it is padding
                 d == IF "V9OptionsDataFirstRecordOnly" \in dev /\ Len(ideal.recs) > 1
                        THEN [recs |-> SubSeq(ideal.recs, 1, 1), pad |-> Slice(b, bs + size, bl - size)]
                        ELSE ideal IN
             next(base @@ [k |-> "odata", recs |-> d.recs, pad |-> d.pad, def |-> def], st.c,
                  u \cup (IF d # ideal THEN {"V9OptionsDataFirstRecordOnly"} ELSE {}))

V9Hdr(b, pos) == [count |-> U16At(b, pos + 2), sys_up_time |-> Slice(b, pos + 4, 4),
                  unix_secs |-> Slice(b, pos + 8, 4), seq |-> Slice(b, pos + 12, 4),
                  source_id |-> Slice(b, pos + 16, 4)]

V9Start(b, pos, c) ==
  IF Avail(b, pos) < 20 THEN [pos |-> pos, budget |-> 0, sets |-> <<>>, c |-> c, status |-> "err", why |-> "header-cut", used |-> {}]
  ELSE [pos |-> pos + 20, budget |-> U16At(b, pos + 2), sets |-> <<>>, c |-> c, status |-> "run", why |-> "", used |-> {}]

\* the whole packet: fold the step; a flowset consumes >= 4 bytes, so Avail/4 + 1 steps suffice
V9Packet(b, pos, c, dev) ==
  LET st0 == V9Start(b, pos, c)
      fuel == Min2(st0.budget, Avail(b, pos) \div 4) + 1
      st  == FoldLeft(LAMBDA acc, i : V9SetStep(b, acc, dev), st0, Range1(fuel))
  IN IF st.status = "ok"
       THEN [status |-> "ok", c |-> st.c, next |-> st.pos, why |-> "", used |-> st.used,
             item |-> [k |-> "v9", s |-> pos, e |-> st.pos - 1, hdr |-> V9Hdr(b, pos), sets |-> st.sets]]
       ELSE [status |-> "err", c |-> st.c, next |-> Len(b) + 1, why |-> st.why, used |-> st.used,
             item |-> [k |-> "err", kind |-> "Partial", ver |-> 9, s |-> pos, rem |-> Rest(b, pos),
                       sets |-> st.sets]]

-----------------------------------------------------------------------------
\* Encoders (independent of the decoders above; used by the bounded models)
EncV9Spec(f) == B16(f.t) \o B16(f.len)
EncV9TmplRec(r) == B16(r.id) \o B16(r.count) \o Flatten([j \in 1..Len(r.fields) |-> EncV9Spec(r.fields[j])])
EncV9OtmplRec(r) == B16(r.id) \o B16(r.scope_len) \o B16(r.opt_len)
                      \o Flatten([j \in 1..Len(r.scope) |-> EncV9Spec(r.scope[j])])
                      \o Flatten([j \in 1..Len(r.opts) |-> EncV9Spec(r.opts[j])])
EncSet(id, body) == B16(id) \o B16(Len(body) + 4) \o body
EncV9TmplSet(recs, pad) == EncSet(0, Flatten([i \in 1..Len(recs) |-> EncV9TmplRec(recs[i])]) \o pad)
EncV9OtmplSet(recs, pad) == EncSet(1, Flatten([i \in 1..Len(recs) |-> EncV9OtmplRec(recs[i])]) \o pad)
EncDataSet(id, recs, pad) == EncSet(id, Flatten([r \in 1..Len(recs) |-> Flatten(recs[r])]) \o pad)
EncV9Hdr(count, h) == B16(9) \o B16(count) \o h.sys_up_time \o h.unix_secs \o h.seq \o h.source_id
=============================================================================
