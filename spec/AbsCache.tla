------------------------------ MODULE AbsCache ------------------------------
(***************************************************************************)
(* Token-level abstraction of the template caches (C06), typed for         *)
(* Apalache.  A packet is one of the abstract tokens                       *)
(*   Define(p, pr, id, d)  a complete template record of an allowed version*)
(*   Filtered(p, pr, id, d) the same bytes under a disallowed version      *)
(*   Other(p)              V5/V7, data sets, garbage, truncated records    *)
(* `latest` is a history variable: the last definition parser p *received  *)
(* in allowed input* for (protocol, id).  CacheIsLatestAbs is an inductive *)
(* invariant, checked by Apalache for any number of steps (not bounded by  *)
(* a call budget); NeverEvictedAbs and IsolationAbs are action invariants. *)
(* MC_Cache.tla's history variable `want` is this abstraction driven by    *)
(* the tokens each alphabet packet carries from its construction, and      *)
(* CacheIsLatest there is the bounded refinement check of the byte-level   *)
(* machine against it.                                                     *)
(***************************************************************************)
EXTENDS Integers

CONSTANTS
  \* @type: Set(Str);
  AParsers,
  \* @type: Set(Str);
  AProtos,
  \* @type: Set(Int);
  AIds,
  \* @type: Set(Int);
  ADefs

VARIABLES
  \* @type: <<Str, Str, Int>> -> Int;
  cache,
  \* @type: <<Str, Str, Int>> -> Int;
  latest,
  \* @type: Str -> Set(Str);
  allows

ConstInit == /\ AParsers = {"A", "B"} /\ AProtos = {"v9", "ipfix"} /\ AIds = {256, 257, 300} /\ ADefs = {1, 2, 3}

Keys == AParsers \X AProtos \X AIds
None == 0

AInit == /\ cache = [k \in Keys |-> None]
         /\ latest = [k \in Keys |-> None]
         /\ allows = [p \in AParsers |-> AProtos]

Define(p, pr, id, d) ==
  /\ pr \in allows[p]
  /\ cache' = [cache EXCEPT ![<<p, pr, id>>] = d]
  /\ latest' = [latest EXCEPT ![<<p, pr, id>>] = d]
  /\ UNCHANGED allows
Filtered(p, pr, id, d) == pr \notin allows[p] /\ UNCHANGED <<cache, latest, allows>>
Other(p) == UNCHANGED <<cache, latest, allows>>
SetAllows(p, S) == allows' = [allows EXCEPT ![p] = S] /\ UNCHANGED <<cache, latest>>

ANext == \/ \E p \in AParsers, pr \in AProtos, id \in AIds, d \in ADefs : Define(p, pr, id, d) \/ Filtered(p, pr, id, d)
         \/ \E p \in AParsers : Other(p)
         \/ \E p \in AParsers, S \in SUBSET AProtos : SetAllows(p, S)

\* inductive invariant (also constrains every variable, as Apalache's induction needs)
TypeOKAbs == /\ cache \in [Keys -> ADefs \cup {None}]
             /\ latest \in [Keys -> ADefs \cup {None}]
             /\ allows \in [AParsers -> SUBSET AProtos]
CacheIsLatestAbs == TypeOKAbs /\ cache = latest

\* action invariants
NeverEvictedAbs == \A k \in Keys : cache[k] # None => cache'[k] # None
IsolationAbs == \A k \in Keys : cache'[k] # cache[k] =>
                  \E p \in AParsers, pr \in AProtos, id \in AIds : k = <<p, pr, id>> /\ pr \in allows[p]
                       /\ \A k2 \in Keys : (k2[1] # p \/ k2[2] # pr) => cache'[k2] = cache[k2]
=============================================================================
