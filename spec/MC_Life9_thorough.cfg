SPECIFICATION MCSpec
CONSTANTS
  Parsers = {"A"}
  Buffers <- MCBuffers
  AllowedSets <- MCAllowedSets
  MaxCalls = 6
  Devs = {}
  Life = "v9"
  LifeLetters = 7
  Depth2 = FALSE
VIEW LifeView
ACTION_CONSTRAINT EmitLife
INVARIANTS Total AccountingInv MicroEqualsMacro ErrorKeepsCache CacheIsLatest
PROPERTIES Progress NeverEvicted OnlyTemplatesWrite Isolation DataUsesCache
CHECK_DEADLOCK FALSE
