------------------------------- MODULE Fixed -------------------------------
(***************************************************************************)
(* NetFlow V5 and V7: the fixed layouts of the Cisco export format,        *)
(* written from the format description (field, width), not from the code.  *)
(* DecodeV5 / DecodeV7 cut a complete packet into header and record        *)
(* fields; EncodeV5 / EncodeV7 are written separately (used by the bounded *)
(* models to build alphabets and to show Decode is the inverse of Encode). *)
(***************************************************************************)
EXTENDS Bytes

\* layout entries are <<field name, width in bytes>>, in wire order, after the 2-byte version
V5HdrLayout == << <<"count", 2>>, <<"sys_up_time", 4>>, <<"unix_secs", 4>>, <<"unix_nsecs", 4>>,
                  <<"flow_sequence", 4>>, <<"engine_type", 1>>, <<"engine_id", 1>>,
                  <<"sampling_interval", 2>> >>
V5RecLayout == << <<"src_addr", 4>>, <<"dst_addr", 4>>, <<"next_hop", 4>>, <<"input", 2>>, <<"output", 2>>,
                  <<"d_pkts", 4>>, <<"d_octets", 4>>, <<"first", 4>>, <<"last", 4>>,
                  <<"src_port", 2>>, <<"dst_port", 2>>, <<"pad1", 1>>, <<"tcp_flags", 1>>,
                  <<"protocol_number", 1>>, <<"tos", 1>>, <<"src_as", 2>>, <<"dst_as", 2>>,
                  <<"src_mask", 1>>, <<"dst_mask", 1>>, <<"pad2", 2>> >>
V7HdrLayout == << <<"count", 2>>, <<"sys_up_time", 4>>, <<"unix_secs", 4>>, <<"unix_nsecs", 4>>,
                  <<"flow_sequence", 4>>, <<"reserved", 4>> >>
V7RecLayout == << <<"src_addr", 4>>, <<"dst_addr", 4>>, <<"next_hop", 4>>, <<"input", 2>>, <<"output", 2>>,
                  <<"d_pkts", 4>>, <<"d_octets", 4>>, <<"first", 4>>, <<"last", 4>>,
                  <<"src_port", 2>>, <<"dst_port", 2>>, <<"flags_fields_valid", 1>>, <<"tcp_flags", 1>>,
                  <<"protocol_number", 1>>, <<"tos", 1>>, <<"src_as", 2>>, <<"dst_as", 2>>,
                  <<"src_mask", 1>>, <<"dst_mask", 1>>, <<"flags_fields_invalid", 2>>,
                  <<"router_src", 4>> >>

LayoutWidths(l) == [i \in 1..Len(l) |-> l[i][2]]
LayoutSize(l)   == SumSeq(LayoutWidths(l))
LayoutNames(l)  == {l[i][1] : i \in 1..Len(l)}
LayoutIdx(l, n) == CHOOSE i \in 1..Len(l) : l[i][1] = n

V5HdrOffs == Offsets(LayoutWidths(V5HdrLayout))
V5RecOffs == Offsets(LayoutWidths(V5RecLayout))
V7HdrOffs == Offsets(LayoutWidths(V7HdrLayout))
V7RecOffs == Offsets(LayoutWidths(V7RecLayout))

ASSUME LayoutSize(V5HdrLayout) = 22 /\ LayoutSize(V5RecLayout) = 48
ASSUME LayoutSize(V7HdrLayout) = 22 /\ LayoutSize(V7RecLayout) = 52

\* the record of field slices at 1-based index `at`
DecodeFields(l, offs, b, at) ==
  [n \in LayoutNames(l) |-> LET i == LayoutIdx(l, n) IN Slice(b, at + offs[i], l[i][2])]

FixedHdrLayout(ver) == IF ver = 5 THEN V5HdrLayout ELSE V7HdrLayout
FixedRecLayout(ver) == IF ver = 5 THEN V5RecLayout ELSE V7RecLayout
FixedHdrOffs(ver)   == IF ver = 5 THEN V5HdrOffs ELSE V7HdrOffs
FixedRecOffs(ver)   == IF ver = 5 THEN V5RecOffs ELSE V7RecOffs
FixedRecSize(ver)   == IF ver = 5 THEN 48 ELSE 52
FixedKind(ver)      == IF ver = 5 THEN "v5" ELSE "v7"

\* wire length a V5/V7 header at pos announces (needs 4 bytes)
FixedWire(ver, count) == 24 + FixedRecSize(ver) * count

\* is a complete V5/V7 packet present at pos?
FixedComplete(ver, b, pos) == Avail(b, pos) >= 24 /\ Avail(b, pos) >= FixedWire(ver, U16At(b, pos + 2))

DecodeFixed(ver, b, pos) ==
  LET c == U16At(b, pos + 2) IN
  [k |-> FixedKind(ver), s |-> pos, e |-> pos + FixedWire(ver, c) - 1, count |-> c,
   hdr |-> DecodeFields(FixedHdrLayout(ver), FixedHdrOffs(ver), b, pos + 2),
   recs |-> [r \in 1..c |-> DecodeFields(FixedRecLayout(ver), FixedRecOffs(ver), b,
                                           pos + 24 + FixedRecSize(ver) * (r - 1))]]

\* Encoder, written independently of the decoder: concatenate the fields in layout order.
EncodeFields(l, rec) == Flatten([i \in 1..Len(l) |-> rec[l[i][1]]])
EncodeFixed(ver, hdr, recs) ==
  B16(ver) \o EncodeFields(FixedHdrLayout(ver), hdr)
           \o Flatten([r \in 1..Len(recs) |-> EncodeFields(FixedRecLayout(ver), recs[r])])

(***************************************************************************)
(* IANA "Assigned Internet Protocol Numbers", keywords normalised to lower *)
(* case alphanumerics.  "" marks numbers that have no keyword (61, 63, 68,  *)
(* 99, 114: "any ..." entries) - any name is accepted for those.           *)
(***************************************************************************)
IanaProto ==
 << "icmp", "igmp", "ggp", "ipv4", "st", "tcp", "cbt", "egp", "igp", "bbnrccmon",
    "nvpii", "pup", "argus", "emcon", "xnet", "chaos", "udp", "mux", "dcnmeas", "hmp",
    "prm", "xnsidp", "trunk1", "trunk2", "leaf1", "leaf2", "rdp", "irtp", "isotp4", "netblt",
    "mfensp", "meritinp", "dccp", "3pc", "idpr", "xtp", "ddp", "idprcmtp", "tp", "il",
    "ipv6", "sdrp", "ipv6route", "ipv6frag", "idrp", "rsvp", "gre", "dsr", "bna", "esp",
    "ah", "inlsp", "swipe", "narp", "mobile", "tlsp", "skip", "ipv6icmp", "ipv6nonxt", "ipv6opts",
    "", "cftp", "", "satexpak", "kryptolan", "rvd", "ippc", "", "satmon", "visa",
    "ipcv", "cpnx", "cphb", "wsn", "pvp", "brsatmon", "sunnd", "wbmon", "wbexpak", "isoip",
    "vmtp", "securevmtp", "vines", "ttp", "nsfnetigp", "dgp", "tcf", "eigrp", "ospfigp", "spriterpc",
    "larp", "mtp", "ax25", "ipip", "micp", "sccsp", "etherip", "encap", "", "gmtp",
    "ifmp", "pnni", "pim", "aris", "scps", "qnx", "an", "ipcomp", "snp", "compaqpeer",
    "ipxinip", "vrrp", "pgm", "", "l2tp", "ddx", "iatp", "stp", "srp", "uti",
    "smp", "sm", "ptp", "isisoveripv4", "fire", "crtp", "crudp", "sscopmce", "iplt", "sps",
    "pipe", "sctp", "fc", "rsvpe2eignore", "mobilityheader", "udplite", "mplsinip", "manet", "hip", "shim6",
    "wesp", "rohc", "ethernet", "aggfrag", "nsh" >>     \* numbers 1..145 ; 0 = hopopt
ASSUME Len(IanaProto) = 145

\* spelling-only aliases (same protocol, different IANA-era keyword)
ProtoAlias(n) == CASE n = 84  -> {"ttp", "iptm"}
                   [] n = 55  -> {"mobile", "minipv4"}
                   [] n = 34  -> {"3pc", "threepc"}
                   [] n = 39  -> {"tp", "tppp", "tpplusplus"}
                   [] n = 22  -> {"xnsidp", "xnxidp"}
                   [] n = 10  -> {"bbnrccmon", "bbcrccmon"}
                   [] OTHER   -> {}

IanaName(n) == IF n = 0 THEN "hopopt" ELSE IF n <= 145 THEN IanaProto[n] ELSE ""

\* is the (normalised) symbolic name acceptable for protocol number n?
ProtoNameOk(n, norm) ==
  IF n <= 144 THEN IanaName(n) = "" \/ norm = IanaName(n) \/ norm \in ProtoAlias(n)
  \* 255 is in the registry under the keyword "Reserved"; 145..254 are unassigned or experimental (no keyword)
  ELSE IF n = 255 THEN norm = "reserved"
  ELSE norm \in {IanaName(n), "unknown", "reserved", "unassigned", "experimental"} \ {""}
=============================================================================
