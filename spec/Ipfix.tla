-------------------------------- MODULE Ipfix --------------------------------
(***************************************************************************)
(* IPFIX (RFC 7011) framing and decoding as pure step functions.           *)
(*                                                                         *)
(* Field specifier: type(2) len(2), and when the high bit of type is set,  *)
(* a 4-byte private enterprise number follows; the stored type is the low  *)
(* 15 bits.  len = 65535 marks a variable-length field whose length is     *)
(* carried in the data record: one byte, or 255 followed by two bytes.     *)
(*                                                                         *)
(* Named deviations (DESIGN.md 3.2c) are alternative branches selected by  *)
(* `dev`; a branch that was taken *and changed the outcome* is recorded in *)
(* `used`, so the trace specification can report exactly the deviations an *)
(* observed execution exercised.                                           *)
(***************************************************************************)
EXTENDS Bytes, V9

VarLen == 65535

\* n field specifiers starting at index `at`, at most `avail` bytes
IpfixSpecs(b, at, avail, n) ==
  LET step(acc, j) ==
        IF ~acc.ok THEN acc
        ELSE LET o == acc.used IN
             IF avail - o < 4 THEN [acc EXCEPT !.ok = FALSE]
             ELSE LET t == U16At(b, at + o)  ln == U16At(b, at + o + 2) IN
                  IF t >= 32768
                    THEN IF avail - o < 8 THEN [acc EXCEPT !.ok = FALSE]
                         ELSE [ok |-> TRUE, used |-> o + 8,
                               fields |-> Append(acc.fields, [t |-> t - 32768, len |-> ln, ent |-> TRUE,
                                                              pen |-> Slice(b, at + o + 4, 4)])]
                    ELSE [ok |-> TRUE, used |-> o + 4,
                          fields |-> Append(acc.fields, [t |-> t, len |-> ln, ent |-> FALSE, pen |-> <<>>])]
      r == FoldLeft(step, [ok |-> TRUE, used |-> 0, fields |-> <<>>], Range1(Min2(n, avail \div 4 + 1)))
  IN [ok |-> r.ok /\ Len(r.fields) = n, used |-> r.used, fields |-> r.fields]

\* as many complete specifiers as fit (the implementation's reading of a template set)
IpfixSpecsGreedy(b, at, avail) ==
  LET step(acc, j) ==
        IF acc.done THEN acc
        ELSE LET one == IpfixSpecs(b, at + acc.used, avail - acc.used, 1) IN
             IF one.ok THEN [done |-> FALSE, used |-> acc.used + one.used, fields |-> acc.fields \o one.fields]
             ELSE [acc EXCEPT !.done = TRUE]
      r == FoldLeft(step, [done |-> FALSE, used |-> 0, fields |-> <<>>], Range1(avail \div 4 + 1))
  IN [used |-> r.used, fields |-> r.fields]

\* RFC 7011 3.4.1: template records id(2) count(2) count specifiers, several per set
IpfixTmplRecs(b, bs, bl) ==
  LET step(acc, i) ==
        IF acc.done THEN acc
        ELSE LET o == acc.o  rem == bl - o IN
             IF rem < 4 THEN [acc EXCEPT !.done = TRUE]
             ELSE LET id == U16At(b, bs + o)  c == U16At(b, bs + o + 2)
                      sp == IpfixSpecs(b, bs + o + 4, rem - 4, c) IN
                  IF ~sp.ok THEN [acc EXCEPT !.done = TRUE]
                  ELSE [o |-> o + 4 + sp.used, done |-> FALSE,
                        recs |-> Append(acc.recs, [id |-> id, count |-> c, fields |-> sp.fields])]
      r == FoldLeft(step, [o |-> 0, done |-> FALSE, recs |-> <<>>], Range1(bl \div 4 + 1))
  IN [recs |-> r.recs, pad |-> Slice(b, bs + r.o, bl - r.o)]

\* deviation IpfixGreedyTemplate: one record whose field list is every specifier that fits
IpfixTmplGreedy(b, bs, bl) ==
  IF bl < 4 THEN [recs |-> <<>>, pad |-> Slice(b, bs, bl)]
  ELSE LET sp == IpfixSpecsGreedy(b, bs + 4, bl - 4) IN
       [recs |-> << [id |-> U16At(b, bs), count |-> U16At(b, bs + 2), fields |-> sp.fields] >>,
        pad  |-> Slice(b, bs + 4 + sp.used, bl - 4 - sp.used)]

\* RFC 7011 3.4.2: options template records id(2) count(2) scopeCount(2) count specifiers
IpfixOtmplRecs(b, bs, bl) ==
  LET step(acc, i) ==
        IF acc.done THEN acc
        ELSE LET o == acc.o  rem == bl - o IN
             IF rem < 6 THEN [acc EXCEPT !.done = TRUE]
             ELSE LET id == U16At(b, bs + o)  c == U16At(b, bs + o + 2)  sc == U16At(b, bs + o + 4)
                      sp == IpfixSpecs(b, bs + o + 6, rem - 6, c) IN
                  IF ~sp.ok THEN [acc EXCEPT !.done = TRUE]
                  ELSE [o |-> o + 6 + sp.used, done |-> FALSE,
                        recs |-> Append(acc.recs, [id |-> id, count |-> c, scope_count |-> sc,
                                                   fields |-> sp.fields])]
      r == FoldLeft(step, [o |-> 0, done |-> FALSE, recs |-> <<>>], Range1(bl \div 6 + 1))
  IN [recs |-> r.recs, pad |-> Slice(b, bs + r.o, bl - r.o)]

\* deviation IpfixOptionsTemplateFirstOnly: the first record only; the specifier count the
\* implementation reads is count when scopeCount <= count, else scopeCount + count
IpfixOtmplFirst(b, bs, bl) ==
  IF bl < 6 THEN [ok |-> FALSE, recs |-> <<>>, pad |-> <<>>]
  ELSE LET c == U16At(b, bs + 2)  sc == U16At(b, bs + 4)
           n == IF sc <= c THEN c ELSE Min2(sc + c, 65535)
           sp == IpfixSpecs(b, bs + 6, bl - 6, n) IN
       IF ~sp.ok THEN [ok |-> FALSE, recs |-> <<>>, pad |-> <<>>]
       ELSE [ok |-> TRUE,
             recs |-> << [id |-> U16At(b, bs), count |-> c, scope_count |-> sc, fields |-> sp.fields] >>,
             pad |-> Slice(b, bs + 6 + sp.used, bl - 6 - sp.used)]

-----------------------------------------------------------------------------
HasVarLen(fs) == \E j \in 1..Len(fs) : fs[j].len = VarLen
MinRecSize(fs) == SumSeq([j \in 1..Len(fs) |-> IF fs[j].len = VarLen THEN 1 ELSE fs[j].len])

\* one record at index `at` with `avail` bytes: values, prefix lengths, bytes used
IpfixRecord(b, at, avail, fs) ==
  LET step(acc, j) ==
        IF ~acc.ok THEN acc
        ELSE LET o == acc.used  f == fs[j] IN
             IF f.len # VarLen
               THEN IF avail - o < f.len THEN [acc EXCEPT !.ok = FALSE]
                    ELSE [ok |-> TRUE, used |-> o + f.len, vals |-> Append(acc.vals, Slice(b, at + o, f.len)),
                          pfx |-> Append(acc.pfx, 0)]
               ELSE IF avail - o < 1 THEN [acc EXCEPT !.ok = FALSE]
                    ELSE LET l1 == b[at + o] IN
                         IF l1 < 255
                           THEN IF avail - o - 1 < l1 THEN [acc EXCEPT !.ok = FALSE]
                                ELSE [ok |-> TRUE, used |-> o + 1 + l1,
                                      vals |-> Append(acc.vals, Slice(b, at + o + 1, l1)),
                                      pfx |-> Append(acc.pfx, 1)]
                           ELSE IF avail - o < 3 THEN [acc EXCEPT !.ok = FALSE]
                                ELSE LET l3 == U16At(b, at + o + 1) IN
                                     IF avail - o - 3 < l3 THEN [acc EXCEPT !.ok = FALSE]
                                     ELSE [ok |-> TRUE, used |-> o + 3 + l3,
                                           vals |-> Append(acc.vals, Slice(b, at + o + 3, l3)),
                                           pfx |-> Append(acc.pfx, 3)]
  IN FoldLeft(step, [ok |-> TRUE, used |-> 0, vals |-> <<>>, pfx |-> <<>>], Range1(Len(fs)))

\* Data set: consecutive records while a complete record fits; the rest is padding.
IpfixDataRecs(b, bs, bl, fs) ==
  IF ~HasVarLen(fs)
    THEN LET d == V9DataRecs(b, bs, bl, fs) IN
         [recs |-> d.recs, pad |-> d.pad, pfx |-> [r \in 1..Len(d.recs) |-> [j \in 1..Len(fs) |-> 0]]]
    ELSE LET step(acc, i) ==
               IF acc.done THEN acc
               ELSE LET r == IpfixRecord(b, bs + acc.o, bl - acc.o, fs) IN
                    IF ~r.ok \/ r.used = 0 THEN [acc EXCEPT !.done = TRUE]
                    ELSE [o |-> acc.o + r.used, done |-> FALSE, recs |-> Append(acc.recs, r.vals),
                          pfx |-> Append(acc.pfx, r.pfx)]
             res == FoldLeft(step, [o |-> 0, done |-> FALSE, recs |-> <<>>, pfx |-> <<>>],
                             Range1(bl \div Max2(MinRecSize(fs), 1) + 1))
         IN [recs |-> res.recs, pad |-> Slice(b, bs + res.o, bl - res.o), pfx |-> res.pfx]

\* A template record the implementation accepts into the cache ("valid"): some field has a length
ValidDef(r) == \E j \in 1..Len(r.fields) : r.fields[j].len > 0

IpfixHdr(b, pos) == [length |-> U16At(b, pos + 2), export_time |-> Slice(b, pos + 4, 4),
                     seq |-> Slice(b, pos + 8, 4), domain |-> Slice(b, pos + 12, 4)]

(***************************************************************************)
(* One set.  st = [pos, me, sets, c, status, used, dropped]                *)
(*   me: index of the last byte of the message                             *)
(***************************************************************************)
IpfixSetStep(b, st, dev) ==
  IF st.status # "run" THEN st
  ELSE IF st.me - st.pos + 1 < 4 THEN [st EXCEPT !.status = "ok", !.left = st.me - st.pos + 1]
  ELSE
    LET pos == st.pos
        id  == U16At(b, pos)
        L   == U16At(b, pos + 2)
        bl  == Max2(L, 4) - 4
        bs  == pos + 4
        base == [id |-> id, len |-> L, s |-> pos, e |-> bs + bl - 1]
        next(set, c2, u) == [st EXCEPT !.pos = bs + bl, !.sets = Append(st.sets, set), !.c = c2,
                                         !.used = st.used \cup u]
        \* an undecodable set: skipped (RFC: process all sets) or, as the implementation does, the end
        bad(why) == IF "IpfixStopAfterBadSet" \in dev
                      THEN [st EXCEPT !.status = "ok", !.dropped = Append(st.dropped, [id |-> id, s |-> pos, why |-> why]),
                                       !.used = st.used \cup (IF bs + bl - 1 < st.me THEN {"IpfixStopAfterBadSet"} ELSE {}),
                                       !.left = st.me - st.pos + 1]
                      ELSE [st EXCEPT !.pos = bs + bl, !.dropped = Append(st.dropped, [id |-> id, s |-> pos, why |-> why])]
    IN
    IF bs + bl - 1 > st.me THEN [st EXCEPT !.status = "ok", !.left = st.me - st.pos + 1,
                                  !.dropped = Append(st.dropped, [id |-> id, s |-> pos, why |-> "set-overruns-message"])]
    ELSE IF id < 255 /\ id # 3 THEN
      LET ideal == IpfixTmplRecs(b, bs, bl)
          t == IF "IpfixGreedyTemplate" \in dev THEN IpfixTmplGreedy(b, bs, bl) ELSE ideal IN
      IF t.recs = <<>> \/ \E i \in 1..Len(t.recs) : ~ValidDef(t.recs[i]) THEN bad("template-invalid")
      ELSE next(base @@ [k |-> "tmpl", recs |-> t.recs, pad |-> t.pad], PutRecs(st.c, "data", t.recs),
                IF t # ideal THEN {"IpfixGreedyTemplate"} ELSE {})
    ELSE IF id = 3 THEN
      LET ideal == IpfixOtmplRecs(b, bs, bl)
          f == IpfixOtmplFirst(b, bs, bl)
          t == IF "IpfixOptionsTemplateFirstOnly" \in dev
                 THEN IF f.ok THEN [recs |-> f.recs, pad |-> f.pad] ELSE [recs |-> <<>>, pad |-> <<>>]
                 ELSE ideal IN
      IF t.recs = <<>> \/ \E i \in 1..Len(t.recs) : ~ValidDef(t.recs[i]) THEN bad("template-invalid")
      ELSE next(base @@ [k |-> "otmpl", recs |-> t.recs, pad |-> t.pad], PutRecs(st.c, "opts", t.recs),
                IF t # ideal THEN {"IpfixOptionsTemplateFirstOnly"} ELSE {})
    ELSE
      LET prio == IF "KindPriorityNotRecency" \in dev THEN "datafirst" ELSE "recency"
          g == Governing(st.c, id, prio)
          u == IF g # Governing(st.c, id, "recency") THEN {"KindPriorityNotRecency"} ELSE {} IN
      IF g = "none" THEN bad("unknown-template")
      ELSE LET def == IF g = "data" THEN st.c.data[id] ELSE st.c.opts[id]
               d == IpfixDataRecs(b, bs, bl, def.fields) IN
           IF def.fields = <<>> \/ d.recs = <<>> THEN bad("no-record")
           ELSE next(base @@ [k |-> IF g = "data" THEN "data" ELSE "odata", recs |-> d.recs, pad |-> d.pad,
                              pfx |-> d.pfx, def |-> def], st.c, u)

IpfixPacket(b, pos, c, dev) ==
  IF Avail(b, pos) < 16 \/ Avail(b, pos) < Max2(U16At(b, pos + 2), 16)
    THEN [status |-> "err", c |-> c, next |-> Len(b) + 1, why |-> "message-cut", used |-> {},
          item |-> [k |-> "err", kind |-> "Partial", ver |-> 10, s |-> pos, rem |-> Rest(b, pos), sets |-> <<>>]]
  ELSE
    LET L   == Max2(U16At(b, pos + 2), 16)
        st0 == [pos |-> pos + 16, me |-> pos + L - 1, sets |-> <<>>, c |-> c, status |-> "run",
                used |-> {}, dropped |-> <<>>, left |-> 0]
        st  == FoldLeft(LAMBDA acc, i : IpfixSetStep(b, acc, dev), st0, Range1((L - 16) \div 4 + 1))
    IN [status |-> "ok", c |-> st.c, next |-> pos + L, why |-> "", used |-> st.used,
        item |-> [k |-> "ipfix", s |-> pos, e |-> pos + L - 1, hdr |-> IpfixHdr(b, pos), sets |-> st.sets,
                  dropped |-> st.dropped, left |-> st.left]]

-----------------------------------------------------------------------------
\* Encoders
EncIpfixSpec(f) == IF f.ent THEN B16(f.t + 32768) \o B16(f.len) \o f.pen ELSE B16(f.t) \o B16(f.len)
EncIpfixTmplRec(r) == B16(r.id) \o B16(r.count) \o Flatten([j \in 1..Len(r.fields) |-> EncIpfixSpec(r.fields[j])])
EncIpfixOtmplRec(r) == B16(r.id) \o B16(r.count) \o B16(r.scope_count)
                         \o Flatten([j \in 1..Len(r.fields) |-> EncIpfixSpec(r.fields[j])])
EncIpfixTmplSet(recs, pad) == EncSet(2, Flatten([i \in 1..Len(recs) |-> EncIpfixTmplRec(recs[i])]) \o pad)
EncIpfixOtmplSet(recs, pad) == EncSet(3, Flatten([i \in 1..Len(recs) |-> EncIpfixOtmplRec(recs[i])]) \o pad)
EncVarLen(v, long) == IF long \/ Len(v) >= 255 THEN <<255>> \o B16(Len(v)) \o v ELSE <<Len(v)>> \o v
EncIpfixMsg(h, sets) == LET body == Flatten(sets) IN
                        B16(10) \o B16(16 + Len(body)) \o h.export_time \o h.seq \o h.domain \o body
=============================================================================
