SPECIFICATION MCSpec
CONSTANTS
  Parsers = {"A", "B"}
  Buffers <- MCBuffers
  AllowedSets <- MCAllowedSets
  MaxCalls = 3
  Devs = {}
  Life = "off"
  LifeLetters = 0
  Depth2 = FALSE
VIEW MCView
ACTION_CONSTRAINT EmitVector
INVARIANTS Total AccountingInv MicroEqualsMacro ErrorKeepsCache CacheIsLatest
PROPERTIES Progress NeverEvicted OnlyTemplatesWrite Isolation DataUsesCache
CHECK_DEADLOCK FALSE
