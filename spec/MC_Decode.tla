----------------------------- MODULE MC_Decode ------------------------------
(***************************************************************************)
(* Bounded model for the decoding properties (C04, C05, C09, C10; inputs   *)
(* for C13, C16, C17): TLC enumerates a *descriptor* space - a protocol, a *)
(* field list over a menu covering every value kind and width class, the   *)
(* number of records, the padding, one or two templates per set - encodes  *)
(* each descriptor with the specification's encoders, decodes the bytes    *)
(* with the reference decoder (as a call of the state machine), and checks *)
(*   DecodeIsInverse : the decoded structure is the descriptor             *)
(*   ExportIsIdentity: re-encoding the decoded structure gives the bytes   *)
(* Every descriptor's bytes become a vector for the real parser.           *)
(***************************************************************************)
EXTENDS Netflow, Json

CONSTANTS MaxFields      \* longest field list

\* <<type, length, enterprise?>> menus: every value kind and width class the library knows
\*  V9: unsigned 1/2/3/4/8/16, IPv4, IPv6, MAC, protocol, duration(ms), string, unknown type
Menu9 == { <<1, 1, FALSE>>, <<1, 2, FALSE>>, <<1, 3, FALSE>>, <<1, 4, FALSE>>, <<1, 8, FALSE>>, <<1, 16, FALSE>>, <<8, 4, FALSE>>,
           <<27, 16, FALSE>>, <<56, 6, FALSE>>, <<4, 1, FALSE>>, <<21, 4, FALSE>>, <<94, 5, FALSE>>, <<999, 3, FALSE>> }
\*  IPFIX adds: 8-byte milliseconds, 4-byte seconds, variable-length and zero-length strings, float,
\*  unknown type, enterprise fields (fixed and variable length)
MenuX == { <<1, 1, FALSE>>, <<2, 3, FALSE>>, <<1, 8, FALSE>>, <<1, 16, FALSE>>, <<8, 4, FALSE>>, <<28, 16, FALSE>>, <<80, 6, FALSE>>,
           <<4, 1, FALSE>>, <<152, 8, FALSE>>, <<150, 4, FALSE>>, <<147, 65535, FALSE>>, <<147, 0, FALSE>>, <<311, 8, FALSE>>,
           <<5000, 2, FALSE>>, <<12, 4, TRUE>>, <<99, 65535, TRUE>> }

B4(a) == <<a, a + 1, a + 2, a + 3>>
H9 == [sys_up_time |-> B4(1), unix_secs |-> B4(5), seq |-> B4(9), source_id |-> B4(13)]
HX == [export_time |-> B4(1), seq |-> B4(5), domain |-> B4(9)]
PEN == <<0, 0, 31, 64>>

SpecOf(m) == [t |-> m[1], len |-> m[2], ent |-> m[3], pen |-> IF m[3] THEN PEN ELSE <<>>]
FieldLists(menu) == UNION {[1..k -> menu] : k \in 1..MaxFields}

\* value bytes of field j of record r: every byte distinct from its neighbours
Val(r, j, n) == [i \in 1..n |-> (37 * r + 16 * j + i) % 251]
\* a variable-length field takes its length from r and j: 0, 3 (short form) or 2 in the long form
VarLenOf(r, j) == IF (r + j) % 3 = 0 THEN 0 ELSE IF (r + j) % 3 = 1 THEN 3 ELSE 2
VarLong(r, j) == (r + j) % 3 = 2

\* Descriptors are numbered; the number is a mixed-radix code of (field digits, nrec, pad, two, protocol)
\* so that a descriptor is recovered from its number by arithmetic (no search, nothing to cache).
Menu9S == SetToSeq(Menu9)
MenuXS == SetToSeq(MenuX)
Base == Max2(Len(Menu9S), Len(MenuXS)) + 1
Pow(b, k) == IF k = 0 THEN 1 ELSE IF k = 1 THEN b ELSE IF k = 2 THEN b * b ELSE b * b * b
NumDesc == Pow(Base, MaxFields) * 64
Digits(n) == [k \in 1..MaxFields |-> (n \div Pow(Base, MaxFields - k)) % Base]      \* field digits, 0 = no field
DescFromIndex(n) ==
  LET proto == IF n % 2 = 0 THEN "v9" ELSE "ipfix"
      menu == IF proto = "v9" THEN Menu9S ELSE MenuXS
      dg == Digits(n \div 64)
      nf == Cardinality({k \in 1..MaxFields : dg[k] # 0})
      wf == /\ nf >= 1
            /\ \A k \in 1..MaxFields : (dg[k] # 0) = (k <= nf)      \* digits are prefix-closed
            /\ \A k \in 1..nf : dg[k] <= Len(menu)
  IN [ok |-> wf, proto |-> proto, two |-> (n \div 2) % 2 = 1, pad |-> (n \div 4) % 4, nrec |-> ((n \div 16) % 2) + 1,
      kind |-> IF (n \div 32) % 2 = 0 THEN "data" ELSE "opts",
      fs |-> IF wf THEN [k \in 1..nf |-> SpecOf(menu[dg[k]])] ELSE <<>>]

MinSize(d) == SumSeq([j \in 1..Len(d.fs) |-> IF d.fs[j].len = VarLen THEN 1 ELSE d.fs[j].len])
\* a descriptor is admissible when its padding is shorter than the shortest record (RFC 3954 / RFC 7011),
\* some field has a length, and the second template of a two-template set is cheap to tell apart
Admissible(d) == /\ d.ok /\ d.pad < MinSize(d) /\ (\E j \in 1..Len(d.fs) : d.fs[j].len > 0)
                 /\ (d.two => d.pad = 0 /\ d.nrec = 1 /\ d.kind = "data")
                 \* options: V9 option fields have a length; one template per set
                 /\ (d.kind = "opts" /\ d.proto = "v9" => \A j \in 1..Len(d.fs) : d.fs[j].len > 0 /\ ~d.fs[j].ent)

Content(d, r, j) == IF d.fs[j].len = VarLen THEN Val(r, j, VarLenOf(r, j)) ELSE Val(r, j, d.fs[j].len)
RawVal(d, r, j) == IF d.fs[j].len = VarLen THEN EncVarLen(Content(d, r, j), VarLong(r, j)) ELSE Content(d, r, j)
Tmpl(d, id) == [id |-> id, count |-> Len(d.fs), fields |-> d.fs]
OtherT == [id |-> 257, count |-> 1, fields |-> <<Spec9(2, 4)>>]
TRecs(d) == IF d.two THEN <<OtherT, Tmpl(d, 256)>> ELSE <<Tmpl(d, 256)>>
OtherRec == <<77, 78, 79, 80>>          \* with two templates the packet also carries a data set of the other one
\* options templates: V9 - one 2-byte "interface" scope field, then the option fields;  IPFIX - the first field is the scope
Scope9 == <<Spec9(2, 2)>>
OT9(d) == [id |-> 256, scope_len |-> 4, opt_len |-> 4 * Len(d.fs), scope |-> Scope9, opts |-> d.fs]
OTX(d) == [id |-> 256, count |-> Len(d.fs), scope_count |-> 1, fields |-> d.fs]
ScopeVal(r) == <<200 + r, 100 + r>>
DataBody(d) ==
  Flatten([r \in 1..d.nrec |-> (IF d.kind = "opts" /\ d.proto = "v9" THEN ScopeVal(r) ELSE <<>>)
                                 \o Flatten([j \in 1..Len(d.fs) |-> RawVal(d, r, j)])]) \o Zeros(d.pad)
MinSizeD(d) == MinSize(d) + (IF d.kind = "opts" /\ d.proto = "v9" THEN 2 ELSE 0)

\* the number of the descriptor travels in the sequence-number field of the header, so that the
\* invariants find the descriptor a buffer was built from without searching
Tag(i) == <<0, i \div 65536, (i \div 256) % 256, i % 256>>
UnTag(e) == e[2] * 65536 + e[3] * 256 + e[4]
Enc(d, i) == IF d.proto = "v9"
               THEN EncV9Hdr(IF d.two THEN 3 ELSE 2, [H9 EXCEPT !.seq = Tag(i)])
                      \o (IF d.kind = "data" THEN EncV9TmplSet(TRecs(d), <<>>) ELSE EncV9OtmplSet(<<OT9(d)>>, <<>>))
                      \o EncSet(256, DataBody(d))
                      \o (IF d.two THEN EncSet(257, OtherRec) ELSE <<>>)
               ELSE EncIpfixMsg([HX EXCEPT !.seq = Tag(i)],
                                <<IF d.kind = "data" THEN EncIpfixTmplSet(TRecs(d), <<>>) ELSE EncIpfixOtmplSet(<<OTX(d)>>, <<>>),
                                  EncSet(256, DataBody(d))>> \o (IF d.two THEN <<EncSet(257, OtherRec)>> ELSE <<>>))

MCBuffers == {Enc(DescFromIndex(i), i) : i \in {n \in 0..(NumDesc - 1) : Admissible(DescFromIndex(n))}}
DescOf(b) == DescFromIndex(UnTag(IF U16At(b, 1) = 9 THEN Slice(b, 13, 4) ELSE Slice(b, 9, 4)))

-----------------------------------------------------------------------------
\* re-encode a decoded item from its structure alone
ExportSet(proto, s) ==
  CASE s.k = "tmpl"  -> IF proto = "v9" THEN EncV9TmplSet(s.recs, s.pad) ELSE EncSet(s.id, Flatten([i \in 1..Len(s.recs) |-> EncIpfixTmplRec(s.recs[i])]) \o s.pad)
    [] s.k = "otmpl" -> IF proto = "v9" THEN EncV9OtmplSet(s.recs, s.pad) ELSE EncSet(s.id, Flatten([i \in 1..Len(s.recs) |-> EncIpfixOtmplRec(s.recs[i])]) \o s.pad)
    [] s.k \in {"data", "odata"} /\ proto = "ipfix" ->
         EncSet(s.id, Flatten([r \in 1..Len(s.recs) |->
                                 Flatten([j \in 1..Len(s.recs[r]) |->
                                            IF s.pfx[r][j] = 0 THEN s.recs[r][j]
                                            ELSE EncVarLen(s.recs[r][j], s.pfx[r][j] = 3)])]) \o s.pad)
    [] s.k = "data"  -> EncDataSet(s.id, s.recs, s.pad)
    [] OTHER -> EncSet(s.id, Flatten([r \in 1..Len(s.recs) |-> Flatten(s.recs[r].scope) \o Flatten(s.recs[r].opts)]) \o s.pad)
ExportItem(it) ==
  IF it.k = "v9" THEN EncV9Hdr(it.hdr.count, it.hdr) \o Flatten([s \in 1..Len(it.sets) |-> ExportSet("v9", it.sets[s])])
  ELSE B16(10) \o B16(it.hdr.length) \o it.hdr.export_time \o it.hdr.seq \o it.hdr.domain
         \o Flatten([s \in 1..Len(it.sets) |-> ExportSet("ipfix", it.sets[s])])

DecodeIsInverse ==
  Done => LET d == DescOf(call.buf)  out == call.cs.out
              vals(r) == [j \in 1..Len(d.fs) |-> Content(d, r, j)] IN
          /\ Len(out) = 1 /\ out[1].k = d.proto /\ Len(out[1].sets) = (IF d.two THEN 3 ELSE 2)
          /\ (d.two => out[1].sets[3].k = "data" /\ out[1].sets[3].id = 257 /\ out[1].sets[3].recs = << <<OtherRec>> >>)
          /\ out[1].sets[1].pad = <<>> /\ out[1].sets[2].id = 256 /\ out[1].sets[2].pad = Zeros(d.pad)
          /\ IF d.kind = "data"
               THEN /\ out[1].sets[1].k = "tmpl" /\ out[1].sets[1].recs = TRecs(d)
                    /\ out[1].sets[2].k = "data"
                    /\ out[1].sets[2].recs = [r \in 1..d.nrec |-> vals(r)]
                    /\ call.cs.tm[d.proto].data[256] = Tmpl(d, 256)
                    /\ (d.two => call.cs.tm[d.proto].data[257] = OtherT)
               ELSE /\ out[1].sets[1].k = "otmpl" /\ out[1].sets[2].k = "odata"
                    /\ IF d.proto = "v9"
                         THEN /\ out[1].sets[1].recs = <<OT9(d)>>
                              /\ out[1].sets[2].recs = [r \in 1..d.nrec |-> [scope |-> <<ScopeVal(r)>>, opts |-> vals(r)]]
                              /\ call.cs.tm.v9.opts[256] = OT9(d)
                         ELSE /\ out[1].sets[1].recs = <<OTX(d)>>
                              /\ out[1].sets[2].recs = [r \in 1..d.nrec |-> vals(r)]
                              /\ call.cs.tm.ipfix.opts[256] = OTX(d)
ExportIsIdentity ==
  Done => \A i \in 1..Len(call.cs.out) :
            call.cs.out[i].k \in {"v9", "ipfix"} =>
              ExportItem(call.cs.out[i]) = SubSeq(call.buf, call.cs.out[i].s, call.cs.out[i].e)

EmitVector == (InCall /\ call'.p = "none") => PrintT("VEC~~" \o ToJson(hist))
=============================================================================
