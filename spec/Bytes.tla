------------------------------- MODULE Bytes -------------------------------
(***************************************************************************)
(* Byte sequences and the few iteration helpers every other module uses.   *)
(* All sequential work is written with FoldLeft (iterative Java override)  *)
(* or with function constructors over closed-form offsets: TLC recursion   *)
(* over tens of thousands of elements does not finish (DESIGN.md 3.1).     *)
(* Positions are 1-based indices into the buffer.                          *)
(***************************************************************************)
EXTENDS Naturals, Sequences, SequencesExt, FiniteSets

Byte == 0..255
Min2(a, b) == IF a < b THEN a ELSE b
Max2(a, b) == IF a > b THEN a ELSE b

U16At(b, i)   == b[i] * 256 + b[i + 1]
Slice(b, i, n) == SubSeq(b, i, i + n - 1)        \* the n bytes starting at index i
Rest(b, i)    == SubSeq(b, i, Len(b))
Avail(b, i)   == IF i > Len(b) THEN 0 ELSE Len(b) - i + 1
B16(x)        == << x \div 256, x % 256 >>
U16Of(e)      == e[1] * 256 + e[2]                \* value of a 2-byte slice

SumSeq(s)  == FoldLeft(LAMBDA a, x : a + x, 0, s)
Flatten(ss) == FoldLeft(LAMBDA a, x : a \o x, <<>>, ss)
Range1(n)  == [i \in 1..n |-> i]

Zeros(n) == [i \in 1..n |-> 0]
ZeroExt(e, n) == IF Len(e) >= n THEN e ELSE Zeros(n - Len(e)) \o e
SignExt(e, n) == IF Len(e) >= n \/ e = <<>> THEN e
                 ELSE [i \in 1..(n - Len(e)) |-> IF e[1] >= 128 THEN 255 ELSE 0] \o e
IsAscii(e) == \A i \in 1..Len(e) : e[i] < 128 /\ e[i] >= 32
AllZero(e) == \A i \in 1..Len(e) : e[i] = 0

\* Prefix sums: Offsets(<<a,b,c>>) = <<0, a, a+b>>
Offsets(lens) ==
  LET r == FoldLeft(LAMBDA acc, x : [sum |-> acc.sum + x, out |-> Append(acc.out, acc.sum)],
                    [sum |-> 0, out |-> <<>>], lens)
  IN r.out

\* does e occur in b as a contiguous run?
OccursIn(e, b) == \E o \in 1..(Len(b) - Len(e) + 1) : Slice(b, o, Len(e)) = e

\* smallest index in 1..n satisfying P, or 0
FirstIdx(n, P(_)) == IF \E i \in 1..n : P(i) THEN CHOOSE i \in 1..n : P(i) /\ \A j \in 1..(i - 1) : ~P(j) ELSE 0
=============================================================================
