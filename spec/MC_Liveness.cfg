SPECIFICATION Spec
CONSTANTS
  Parsers = {"A"}
  Buffers <- MCBuffers
  AllowedSets <- MCAllowedSets
  MaxCalls = 2
  Devs = {}
  MaxChain = 1
  CutMode = "few"
VIEW View
INVARIANTS Total
PROPERTIES Terminates Progress
CHECK_DEADLOCK FALSE
