"""Per-property pipelines: which drivers and bounded models feed which property (DESIGN.md 4, 5)."""
import glob
import hashlib
import json
import os
import shutil
import subprocess
import sys
import time

import gen
import vf
from vf import log

ALL_PROPS = ["C%02d" % i for i in range(1, 18)]


# ----------------------------------------------------------------------------- drivers
def d_corpus(g, tier):
    ops = []
    for p in sorted(glob.glob(os.path.join(vf.VERIF, "corpus", "*.ndjson"))):
        with open(p) as f:
            ops += [json.loads(l) for l in f if l.strip()]
    return ops


def d_conformant(g, tier):
    n = 120 if tier == "quick" else 1500
    ops = []
    for i in range(n):
        ops += gen.conformant_session(g, npk=g.r.choice([4, 8, 12]))
    for i in range(6 if tier == "quick" else 60):
        ops += gen.floats_session(g)
    ops += late_sessions(g, tier)
    return ops


def d_mutate(g, tier):
    n = 120 if tier == "quick" else 1500
    ops = []
    for i in range(n):
        ops += gen.mutate_session(g, npk=g.r.choice([4, 8]))
    return ops


def late_sessions(g, tier):
    ops = []
    for i in range(3 if tier == "quick" else 30):
        for proto in ("v9", "ipfix"):
            for kind in ("data", "opts"):
                ops += gen.late_template_session(g, proto, kind)
    return ops


def d_truncate(g, tier):
    ops = []
    for i in range(1 if tier == "quick" else 8):
        ops += gen.truncate_session(g)
    for i in range(1 if tier == "quick" else 6):
        ops += gen.bigcount_session(g)
    return ops


def d_hostile(g, tier):
    ops = []
    for i in range(40 if tier == "quick" else 400):
        ops += gen.hostile_templates_session(g)
    for proto in ("v9", "ipfix"):
        ops += gen.many_templates_session(g, 1100 if tier == "quick" else 4000, proto)
    for i in range(6 if tier == "quick" else 60):
        ops += gen.dup_templates_session(g)
    return ops


def d_known(g, tier):
    """templates made only of fields the library knows (C17: must behave exactly as the default build)"""
    ops = []
    for i in range(60 if tier == "quick" else 600):
        ops += gen.conformant_session(g, npk=g.r.choice([4, 8]), unknown=False, multi_tmpl=False)
    return ops


def d_struct(g, tier):
    return gen.struct_session(g, tier)


def d_scale(g, tier):
    return gen.scale_sessions(g, tier)


def d_rounds(g, tier):
    ops = []
    for i in range(100 if tier == "quick" else 1500):
        ops += gen.rounds_session(g)
    for i in range(16 if tier == "quick" else 200):
        ops += gen.lagged_twins_session(g, "v9" if i % 2 == 0 else "ipfix")
    return ops


def d_longchain(g, tier):
    ops = []
    for i in range(1 if tier == "quick" else 4):
        ops += gen.long_chain_session(g)
    return ops


def d_protocols(g, tier):
    return gen.protocols_session(g)


MODELS = {
    # name: (module, quick cfg, thorough cfg, parsers, quick vector limit)
    "framing": ("MC_Framing.tla", "MC_Framing_quick.cfg", "MC_Framing_thorough.cfg", ["A"], 9000),
    "cache": ("MC_Cache.tla", "MC_Cache_quick.cfg", "MC_Cache_thorough.cfg", ["A", "B"], 6000),
    # random walks of 8 calls over single and two-packet buffers (TLC -simulate): deeper histories than the exhaustive bound
    "cachesim": ("MC_Cache.tla", "MC_Cache_sim.cfg", "MC_Cache_sim.cfg", ["A", "B"], -1),
    "liveness": ("MC_Framing.tla", "MC_Liveness.cfg", "MC_Liveness.cfg", ["A"], 0),   # Terminates under weak fairness; no vectors
    "decode": ("MC_Decode.tla", "MC_Decode_quick.cfg", "MC_Decode_thorough.cfg", ["A"], 4000),
    # the life cycle of one template id: EVERY sequence of MaxCalls packets over a small alphabet (history in the VIEW)
    "life9": ("MC_Cache.tla", "MC_Life9_quick.cfg", "MC_Life9_thorough.cfg", ["A"], -1),
    "lifex": ("MC_Cache.tla", "MC_LifeX_quick.cfg", "MC_LifeX_thorough.cfg", ["A"], -1),
}


def model_run(name, tier, seed):
    """exhaustive TLC run of a bounded model (cached); its vectors are replayed by driver_run('vec:<name>')"""
    module, qcfg, tcfg, parsers, limit = MODELS[name]
    cfg = qcfg if tier == "quick" else tcfg
    th = vf.tree_hash()
    mkey = "model-%s-%s%s" % (name, tier, "-%d" % seed if name == "cachesim" else "")
    cdir = os.path.join(vf.OUT, "cache", th, mkey)
    done = os.path.join(cdir, "model.json")
    with cache_lock(th, mkey):
        return _model_run(name, tier, seed, module, cfg, th, cdir, done)


def _model_run(name, tier, seed, module, cfg, th, cdir, done):
    if os.path.exists(done):
        with open(done) as f:
            return json.load(f)
    shutil.rmtree(cdir, ignore_errors=True)
    os.makedirs(cdir)
    if name == "cachesim":
        r = vf.tlc_model(module, cfg, cdir, workers=1, timeout=3600,
                         extra_args=["-simulate", "num=%d" % (60 if tier == "quick" else 1500), "-depth", "130", "-seed", str(seed)])
    else:
        r = vf.tlc_model(module, cfg, cdir, workers=min(12, vf.NCPU), timeout=900 if tier == "quick" else 7200)
    log("model %s (%s): ok=%s states=%d transitions=%d vectors=%d %.1fs" % (name, cfg, r["ok"], r["states"], r["transitions"], r["nvec"], r["wall_s"]))
    if not r["ok"]:
        with open(os.path.join(cdir, "tlc.out")) as f:
            tail = f.read()[-3000:]
        raise vf.ToolError("the bounded model %s violates one of its own properties or did not finish (a defect of the specification, not a verdict):\n%s" % (name, tail))
    with open(done, "w") as f:
        json.dump(r, f)
    return r


def vector_ops(name, tier, seed):
    module, qcfg, tcfg, parsers, limit = MODELS[name]
    m = model_run(name, tier, seed)
    vecs = vf.read_vectors(m["vectors_file"], limit if (tier == "quick" or limit == -1) else 120000, seed)
    ops = []
    for v in vecs:
        ops += gen.ops_reset(parsers)
        ops += v
    return ops


DRIVERS = {"corpus": d_corpus, "conformant": d_conformant, "mutate": d_mutate, "truncate": d_truncate,
           "hostile": d_hostile, "protocols": d_protocols, "rounds": d_rounds, "known": d_known, "scale": d_scale, "struct": d_struct, "longchain": d_longchain}

LIGHT_DRIVERS = {"scale"}      # adversarial 64 KiB inputs: totality, accounting and cost only (Trace.tla, LIGHT=1)

PROP_DRIVERS = {
    "C01": ["corpus", "hostile", "mutate", "conformant", "scale"],
    "C15": ["corpus", "conformant", "hostile", "scale"],
    "C16": ["corpus", "conformant", "mutate", "rounds", "hostile"],
    "C02": ["corpus", "conformant", "mutate", "truncate", "hostile", "longchain"],
    "C03": ["corpus", "conformant", "protocols", "truncate"],
    "C04": ["corpus", "conformant", "protocols"],
    "C05": ["corpus", "conformant"],
    "C06": ["corpus", "conformant", "mutate", "rounds", "hostile"],
    "C07": ["corpus", "conformant", "mutate", "hostile"],
    "C08": ["corpus", "conformant", "mutate", "struct", "protocols"],
    "C09": ["corpus", "conformant", "mutate", "hostile"],
    "C10": ["corpus", "conformant", "mutate", "hostile"],
    "C11": ["corpus", "conformant", "rounds", "longchain"],
    "C12": ["corpus", "mutate", "conformant", "rounds"],
    "C13": ["corpus", "conformant", "mutate", "protocols"],
    "C14": ["corpus", "truncate", "mutate", "rounds"],
}


# ----------------------------------------------------------------------------- driver runs (cached)
def driver_run(name, tier, seed, puf=True, keep_trace=False, release=False):
    """ops -> harness -> trace -> TLC findings; cached by the hash of everything it depends on"""
    binary = vf.build_harness(puf=puf, release=release)
    if binary is None:
        raise vf.ToolError("harness build failed")
    th = vf.tree_hash()
    key = "%s-%s-%d-%s%s" % (name, tier, seed, "puf" if puf else "nopuf", "-release" if release else "")
    cdir = os.path.join(vf.OUT, "cache", th, key)
    done = os.path.join(cdir, "result.json")
    with cache_lock(th, key):
        return _driver_run(name, tier, seed, puf, keep_trace, release, binary, th, cdir, done)


def cache_lock(th, key):
    """checks started side by side share drivers and models: the first computes, the others wait and reuse"""
    import fcntl
    import contextlib

    @contextlib.contextmanager
    def cm():
        d = os.path.join(vf.OUT, "cache", th)
        os.makedirs(d, exist_ok=True)
        with open(os.path.join(d, key.replace("/", "_") + ".lock"), "w") as lf:
            fcntl.flock(lf, fcntl.LOCK_EX)
            try:
                yield
            finally:
                fcntl.flock(lf, fcntl.LOCK_UN)
    return cm()


def _driver_run(name, tier, seed, puf, keep_trace, release, binary, th, cdir, done):
    if os.path.exists(done):
        with open(done) as f:
            return json.load(f)
    shutil.rmtree(cdir, ignore_errors=True)
    os.makedirs(cdir)
    t = time.time()
    g = gen.Gen(seed * 1000003 + int(hashlib.sha256(name.encode()).hexdigest()[:6], 16), vf.kinds(binary))
    ops = vector_ops(name[4:], tier, seed) if name.startswith("vec:") else DRIVERS[name](g, tier)
    opsf = os.path.join(cdir, "ops.ndjson")
    trf = os.path.join(cdir, "trace.ndjson")
    vf.write_ops(opsf, ops)
    light = name in LIGHT_DRIVERS
    info = vf.run_harness(binary, opsf, trf, timeout_ms=180000 if light else 20000,
                          post="export1,common,json,light" if light else "export,common,json")
    env_extra = {} if puf else {"PUF": "0"}
    if light:
        env_extra["LIGHT"] = "1"
    res = vf.validate(trf, cdir, env_extra=env_extra or None)
    res["trace"] = trf
    res["driver"] = name + ("(release)" if release else "")
    res["calls"] = sum(1 for o in ops if o.get("op") in ("call", "flat", "struct"))
    res["sessions"] = sum(1 for o in ops if o.get("op") == "reset")
    res["wall_s"] = round(time.time() - t, 1)
    res["harness"] = info
    res["samples"] = [o for o in ops if o.get("op") == "call"][:2]
    log("driver %s: %d calls, %d events, %d findings, %.1fs" % (name, res["calls"], res["events"], len(res["findings"]), res["wall_s"]))
    # keep the cache small: drop shards and the trace, keep ops (replay) and results
    for p in glob.glob(os.path.join(cdir, "shard-*.ndjson")) + ([] if keep_trace else [trf]):
        try:
            os.remove(p)
        except OSError:
            pass
    with open(done, "w") as f:
        json.dump(res, f)
    prune_cache(th)
    return res


def prune_cache(keep):
    root = os.path.join(vf.OUT, "cache")
    for d in os.listdir(root):
        # (results for another state of the tree; one touched in the last half hour may belong to a run in progress)
        if d != keep and time.time() - os.path.getmtime(os.path.join(root, d)) > 1800:
            shutil.rmtree(os.path.join(root, d), ignore_errors=True)


# ----------------------------------------------------------------------------- check
def emit(prop, tier, seed, t0, runs, extra_findings=(), level="model_checking", extra_cov=None, models=()):
    known = vf.load_known()
    findings = list(extra_findings)
    for r in runs:
        for fd in r["findings"]:
            fd = dict(fd)
            fd["driver"] = r["driver"]
            findings.append(fd)
    hits, viol = vf.classify(prop, findings, known)
    odir = os.path.join(vf.OUT, prop)
    shutil.rmtree(odir, ignore_errors=True)
    os.makedirs(odir, exist_ok=True)
    for kid, fds in sorted(hits.items()):
        e = next(k for k in known if k["id"] == kid)
        print("KNOWN-FINDING: property=%s %s [%s] (%d occurrences)" % (prop, e["what"], kid, len(fds)))
    seen = {}
    for fd in viol:
        seen.setdefault(tuple(fd["sig"]), []).append(fd)
    n = 0
    for sig, fds in sorted(seen.items()):
        n += 1
        fd = min(fds, key=lambda x: len(json.dumps(x.get("replay_ops", []))))
        rp = os.path.join(odir, "replay-%d.ndjson" % n)
        vf.write_ops(rp, fd.get("replay_ops", []))
        print("VIOLATION property=%s replay=%s signature=%s occurrences=%d driver=%s" % (prop, rp, json.dumps(list(sig)), len(fds), fd.get("driver", "")))
    cov = {
        "states": max(1, sum(m["states"] for m in models) + sum(r.get("states", 0) for r in runs)),
        "transitions": max(1, sum(m["transitions"] for m in models) + sum(r.get("events", 0) for r in runs)),
        "model_states": sum(m["states"] for m in models),
        "trace_states": sum(r.get("states", 0) for r in runs),
        "traces_validated_against_impl": sum(r.get("sessions", 0) for r in runs),
        "calls_validated": sum(r.get("calls", 0) for r in runs),
        "events_matched_reference_run": sum(1 for r in runs for c in r["cov"] if c["matched"]),
        "events_conformant": sum(1 for r in runs for c in r["cov"] if c["conf"]),
        "events_unexplained_structure": sum(1 for r in runs for c in r["cov"] if not c["matched"]),
        "deviations_exercised": sorted({d for r in runs for c in r["cov"] for d in c["dev"] if d != "?"}),
        "drivers": {r["driver"]: {"calls": r["calls"], "sessions": r["sessions"], "events": r["events"], "wall_s": r["wall_s"]} for r in runs},
        "samples": [s for r in runs for s in r.get("samples", [])][:4] or [{"note": "no call samples"}],
        "known_findings_reproduced": sorted(hits.keys()),
        "exhaustive": False,
    }
    # how often the property's own antecedent held (decided by the reference run, see Shape0 in Trace.tla)
    shapes = [c.get("shape", "") for r in runs for c in r["cov"]]

    def cnt(pred):
        n, distinct = 0, set()
        for sh in shapes:
            parts = sh.split("|")
            if len(parts) == 4 and pred(parts[0].split(",") if parts[0] else [], parts[1], parts[2], int(parts[3] or 0)):
                n += 1
                distinct.add(sh)
        return n, len(distinct)
    ante = {
        "C01": ("every call", lambda k, stop, why, unk: True),
        "C02": ("every call", lambda k, stop, why, unk: True),
        "C03": ("reference run has a V5/V7 item or a cut V5/V7 packet", lambda k, stop, why, unk: "v5" in k or "v7" in k or why == "fixed-cut"),
        "C04": ("reference run has a V9 item", lambda k, stop, why, unk: "v9" in k),
        "C05": ("reference run has an IPFIX item", lambda k, stop, why, unk: "ipfix" in k),
        "C06": ("reference run has a V9/IPFIX item", lambda k, stop, why, unk: "v9" in k or "ipfix" in k),
        "C07": ("reference run meets data for an unknown template", lambda k, stop, why, unk: why == "unknown-template" or unk > 0),
        "C08": ("reference run has a V5/V7 item", lambda k, stop, why, unk: "v5" in k or "v7" in k),
        "C09": ("reference run has a V9 item", lambda k, stop, why, unk: "v9" in k),
        "C10": ("reference run has an IPFIX item", lambda k, stop, why, unk: "ipfix" in k),
        "C11": ("reference run decodes two or more chained packets without error", lambda k, stop, why, unk: len(k) >= 2 and stop == "end"),
        "C12": ("reference run stops at a disallowed version or meets an unknown version", lambda k, stop, why, unk: stop == "unallowed" or why == "unknown-version"),
        "C13": ("reference run has any item", lambda k, stop, why, unk: len(k) >= 1),
        "C14": ("reference run ends in a cut packet", lambda k, stop, why, unk: why in ("header-cut", "set-header-cut", "set-body-cut", "message-cut", "fixed-cut", "version-cut")),
        "C15": ("every call", lambda k, stop, why, unk: True),
        "C16": ("every call", lambda k, stop, why, unk: True),
        "C17": ("reference run has a V9/IPFIX item", lambda k, stop, why, unk: "v9" in k or "ipfix" in k),
    }
    if prop in ante:
        n, d = cnt(ante[prop][1])
        cov["evaluations"] = max(1, sum(r.get("calls", 0) for r in runs))
        cov["antecedent_held_on_events"] = n
        cov["distinct_nontrivial"] = max(d, 0)
        cov["rule"] = ("an event is non-trivial when the property's antecedent holds on it: %s; distinct = distinct shapes "
                       "(item kinds in order | stop reason | error cause | unknown-template sets) of the reference run" % ante[prop][0])
    rounds = {}
    for r in runs:
        for k, (h, n) in r.get("rounds", {}).items():
            if k != "mark":
                e = rounds.setdefault(k, {"antecedent_held": 0, "rounds": 0})
                e["antecedent_held"] += h
                e["rounds"] += n
    if rounds:
        cov["relational_rounds"] = rounds
    if extra_cov:
        cov.update(extra_cov)
    if prop == "C15":
        level = "other"
        cov["explanation"] = ("allocation is measured by a counting GlobalAlloc in the harness worker around parse_bytes (total, peak, held; written the moment "
                              "the call returns) and judged by TLC evaluating the cost model of spec/Trace.tla on every recorded call: allocated <= 64*|buf| + "
                              "32*held + 256 KiB; held <= 1024*Received + 256 KiB; Units(result) <= 4*Received + 64, Received = |buf| + wire size of the cached "
                              "templates. Inputs: model vectors, conformant/hostile streams and the adversarial 64 KiB shapes of the scale driver (packed minimal "
                              "packets, maximal record counts, counts announcing absent bytes, thousands of template fields, zero-length fields, large caches).")
    ev = {"property_id": prop, "tier": tier, "seed": seed, "level": level, "coverage": cov,
          "assumptions": ["TLC and the CommunityModules evaluate the specification correctly",
                          "the harness projection (flatten + to_be_bytes of std types) is faithful",
                          "the byte-level reference in spec/*.tla transcribes the Cisco V5/V7 layouts, RFC 3954 and RFC 7011 correctly"],
          "wall_s": round(time.time() - t0, 1), "violations": len(seen)}
    # evidence describes /repo itself; a run against a scratch copy (seeded change) keeps its record in its own output directory
    evdir = os.path.join(vf.VERIF, "evidence") if vf.REPO == "/repo" else os.path.join(vf.OUT, "evidence-scratch")
    os.makedirs(evdir, exist_ok=True)
    with open(os.path.join(evdir, prop + ".json"), "w") as f:
        json.dump(ev, f, indent=1)
    return 1 if seen else 0


PROP_MODELS = {
    "C01": ["framing", "cache", "liveness"], "C02": ["framing"], "C03": ["framing"], "C04": ["decode", "cache", "life9"], "C05": ["decode", "cache", "lifex"],
    "C06": ["cache", "life9", "lifex"], "C07": ["cache", "life9", "lifex"], "C08": ["framing"], "C09": ["decode", "cache", "framing", "life9"], "C10": ["decode", "cache", "framing", "lifex"],
    "C11": ["framing", "cache"], "C12": ["framing", "cache"], "C13": ["decode"], "C14": ["framing", "cache"],
}


def check_c17(tier, seed, t0):
    """feature-off build: compiles; known-only streams behave exactly as in the default build (TraceEq.tla);
    a record with an unknown field is not reported as decoded (Trace.tla with PUF=0)"""
    extra = []
    if vf.build_harness(puf=True) is None:
        raise vf.ToolError("default harness build failed")
    off = vf.build_harness(puf=False)
    if off is None:
        extra.append({"line": 0, "sig": ["C17", "build", "feature-off", ""], "driver": "build",
                      "replay_ops": [{"op": "note", "what": "cargo build --no-default-features failed"}]})
        return emit("C17", tier, seed, t0, [], extra_findings=extra, level="other",
                    extra_cov={"explanation": "the feature-off build failed, so no trace could be produced", "evaluations": 1, "distinct_nontrivial": 2})
    on = driver_run("known", tier, seed, puf=True, keep_trace=True)
    offr = driver_run("known", tier, seed, puf=False, keep_trace=True)
    wd = os.path.join(vf.OUT, "c17eq")
    shutil.rmtree(wd, ignore_errors=True)
    if not (os.path.exists(on["trace"]) and os.path.exists(offr["trace"])):
        # cached results whose traces were pruned: recompute
        shutil.rmtree(os.path.dirname(on["trace"]), ignore_errors=True)
        shutil.rmtree(os.path.dirname(offr["trace"]), ignore_errors=True)
        on = driver_run("known", tier, seed, puf=True, keep_trace=True)
        offr = driver_run("known", tier, seed, puf=False, keep_trace=True)
    eq = vf.tlc_trace(on["trace"], wd, cfg="TraceEq.cfg", module="TraceEq.tla", env_extra={"TRACE2": offr["trace"]})
    with open(offr["trace"]) as f:
        lines = f.readlines()
    for fd in eq["findings"]:
        fd["driver"] = "known(feature-off vs default)"
        fd["replay_ops"] = vf.session_ops(lines, fd["line"])
        extra.append(fd)
    # mixed streams (templates with unknown field types among known-only ones): same caches in both builds after
    # every call, and every packet that mentions no unknown field type returned identically (TraceEq.tla, MIXED=1)
    onm = driver_run("conformant", tier, seed, puf=True, keep_trace=True)
    unk = driver_run("conformant", tier, seed, puf=False, keep_trace=True)
    if not (os.path.exists(onm["trace"]) and os.path.exists(unk["trace"])):
        shutil.rmtree(os.path.dirname(onm["trace"]), ignore_errors=True)
        shutil.rmtree(os.path.dirname(unk["trace"]), ignore_errors=True)
        onm = driver_run("conformant", tier, seed, puf=True, keep_trace=True)
        unk = driver_run("conformant", tier, seed, puf=False, keep_trace=True)
    wd2 = os.path.join(vf.OUT, "c17mixed")
    shutil.rmtree(wd2, ignore_errors=True)
    eqm = vf.tlc_trace(onm["trace"], wd2, cfg="TraceEq.cfg", module="TraceEq.tla", env_extra={"TRACE2": unk["trace"], "MIXED": "1"})
    with open(unk["trace"]) as f:
        mlines = f.readlines()
    for fd in eqm["findings"]:
        fd["driver"] = "conformant(feature-off vs default)"
        fd["replay_ops"] = vf.session_ops(mlines, fd["line"])
        extra.append(fd)
    cov = {"events_compared_between_builds": eq["states"], "events_compared_between_builds_mixed_streams": eqm["states"],
           "feature_off_sets_with_unknown_fields_seen": "see drivers.conformant"}
    return emit("C17", tier, seed, t0, [offr, unk], extra_findings=extra, extra_cov=cov)


def apalache_abs():
    """unbounded (inductive) check of the token-level cache abstraction spec/AbsCache.tla with Apalache"""
    wd = os.path.join(vf.OUT, "apalache")
    shutil.rmtree(wd, ignore_errors=True)
    os.makedirs(wd)
    res = {}
    for name, args in (("base", ["--init=AInit", "--inv=CacheIsLatestAbs", "--length=0"]),
                       ("step", ["--init=CacheIsLatestAbs", "--inv=CacheIsLatestAbs", "--length=1"]),
                       ("never-evicted", ["--init=CacheIsLatestAbs", "--inv=NeverEvictedAbs", "--length=1"]),
                       ("isolation", ["--init=CacheIsLatestAbs", "--inv=IsolationAbs", "--length=1"])):
        r = subprocess.run(["timeout", "1200", "apalache-mc", "check", "--cinit=ConstInit", "--next=ANext", "--out-dir=" + wd] + args + ["AbsCache.tla"],
                           cwd=vf.SPEC, stdout=subprocess.PIPE, stderr=subprocess.STDOUT, text=True)
        res[name] = "EXITCODE: OK" in r.stdout
        if not res[name]:
            raise vf.ToolError("Apalache: obligation %s of spec/AbsCache.tla failed (a defect of the specification):\n%s" % (name, r.stdout[-1500:]))
    shutil.rmtree(wd, ignore_errors=True)
    log("apalache AbsCache: %s" % res)
    return res


def check(prop, tier, seed, t0):
    if prop == "C17":
        return check_c17(tier, seed, t0)
    if prop not in PROP_DRIVERS:
        raise vf.ToolError("no pipeline for " + prop)
    mnames = list(PROP_MODELS.get(prop, []))
    if (tier == "thorough" and prop in ("C06", "C07", "C11", "C12", "C14")) or prop == "C06":
        mnames.append("cachesim")
    models = [model_run(m, tier, seed) for m in mnames]
    runs = [driver_run("vec:" + m, tier, seed) for m in mnames if m != "liveness"]
    runs += [driver_run(d, tier, seed) for d in PROP_DRIVERS[prop]]
    if prop == "C01" and tier == "thorough":
        # stack depth and frame sizes differ between profiles: exercise the optimised build too
        runs += [driver_run(d, tier, seed, release=True) for d in ("scale", "hostile", "mutate")]
    apa = apalache_abs() if (prop == "C06" and tier == "thorough") else None
    extra = {"models": {m["module"] + ":" + m["cfg"]: {"states": m["states"], "transitions": m["transitions"], "vectors": m["nvec"], "wall_s": m["wall_s"]} for m in models}}
    if apa:
        extra["apalache_inductive_obligations_AbsCache"] = apa
    return emit(prop, tier, seed, t0, runs, extra_cov=extra, models=models)


def replay(prop, path):
    binary = vf.build_harness()
    if binary is None:
        raise vf.ToolError("harness build failed")
    wd = os.path.join(vf.OUT, "replay-" + prop)
    shutil.rmtree(wd, ignore_errors=True)
    os.makedirs(wd)
    trf = os.path.join(wd, "trace.ndjson")
    vf.run_harness(binary, path, trf)
    res = vf.validate(trf, wd, nshards=1)
    known = vf.load_known()
    hits, viol = vf.classify(prop, res["findings"], known)
    for kid in sorted(hits):
        print("KNOWN-FINDING: property=%s [%s]" % (prop, kid))
    for fd in viol:
        print("VIOLATION property=%s replay=%s signature=%s" % (prop, path, json.dumps(fd["sig"])))
    return 1 if viol else 0


def setup():
    b = vf.build_harness()
    if b is None:
        return 2
    vf.build_harness(puf=False)      # warm the feature-off build too (its failure is C17's finding, not a setup error)
    for m in sorted(glob.glob(os.path.join(vf.SPEC, "*.tla"))):
        r = subprocess.run(["tla-sany", os.path.basename(m)], cwd=vf.SPEC, stdout=subprocess.PIPE, stderr=subprocess.STDOUT, text=True)
        if r.returncode != 0 or "rror" in r.stdout.replace("Semantic errors", "rror"):
            if r.returncode != 0:
                print(r.stdout[-2000:])
                return 2
    print("setup ok")
    return 0


def selftest():
    """shows that the binding binds (DESIGN.md 3.8): (i) a corrupted field of a recorded trace is a finding;
    (ii) a trace with a hook removed is rejected; (iii) every named deviation, switched on in the bounded
    model, violates the property it is filed under"""
    import copy
    binary = vf.build_harness()
    wd = os.path.join(vf.OUT, "selftest")
    shutil.rmtree(wd, ignore_errors=True)
    os.makedirs(wd)
    ops = [json.loads(l) for l in open(os.path.join(vf.VERIF, "corpus", "repo_tests.ndjson")) if l.strip()]
    vf.write_ops(os.path.join(wd, "ops.ndjson"), ops)
    vf.run_harness(binary, os.path.join(wd, "ops.ndjson"), os.path.join(wd, "trace.ndjson"))
    lines = [json.loads(l) for l in open(os.path.join(wd, "trace.ndjson"))]
    ok = True
    base = vf.tlc_trace(os.path.join(wd, "trace.ndjson"), os.path.join(wd, "t0"))
    nbase = len(base["findings"])
    # (i) corruptions
    def first(pred):
        return next(i for i, e in enumerate(lines) if e.get("e") == "ret" and pred(e))
    muts = []
    i = first(lambda e: e["out"] and e["out"][0]["k"] == "v5" and e["out"][0]["recs"])
    m = copy.deepcopy(lines); m[i]["out"][0]["recs"][0]["dst_port"] = [9, 9]; muts.append(("v5 record field", m, "C03"))
    i = first(lambda e: e["out"] and e["out"][0]["k"] == "v9" and any(s["k"] == "data" and s["recs"] for s in e["out"][0]["sets"]))
    m = copy.deepcopy(lines)
    st = next(s for s in m[i]["out"][0]["sets"] if s["k"] == "data" and s["recs"])
    st["recs"][0][0]["v"]["b"] = [x ^ 1 for x in st["recs"][0][0]["v"]["b"]] or [1]; muts.append(("v9 value", m, "C04"))
    i = first(lambda e: any((not c["same"]) and c["tmpl"]["ipfix"]["data"] for c in e["caches"]))
    m = copy.deepcopy(lines); m[i]["caches"][0]["tmpl"]["ipfix"]["data"][0]["def"]["fields"][0]["len"] += 1; muts.append(("cached ipfix template", m, "C06"))
    i = first(lambda e: e["out"] and e["out"][-1]["k"] == "err")
    m = copy.deepcopy(lines); m[i]["out"][-1]["rem"] = m[i]["out"][-1]["rem"][:-1]; muts.append(("error remaining bytes", m, "C02"))
    i = first(lambda e: e["out"] and e["out"][0]["k"] == "v7")
    m = copy.deepcopy(lines); m[i]["out"][0]["exp"]["bytes"][30] ^= 255; muts.append(("v7 export byte", m, "C08"))
    for name, m, prop in muts:
        pth = os.path.join(wd, "mut.ndjson")
        with open(pth, "w") as f:
            for e in m:
                f.write(json.dumps(e) + "\n")
        r = vf.tlc_trace(pth, os.path.join(wd, "t1"))
        got = [fd for fd in r["findings"] if fd["sig"][0] == prop]
        good = len(r["findings"]) > nbase and got
        print("selftest corrupt %-24s -> %s %s" % (name, "finding" if good else "MISSED", got[0]["sig"] if got else ""))
        ok = ok and bool(good)
    # (ii) a removed hook: drop one `ret`
    i = first(lambda e: True)
    m = lines[:i] + lines[i + 1:]
    pth = os.path.join(wd, "mut.ndjson")
    with open(pth, "w") as f:
        for e in m:
            f.write(json.dumps(e) + "\n")
    try:
        vf.tlc_trace(pth, os.path.join(wd, "t2"))
        print("selftest removed-hook -> ACCEPTED (bad)")
        ok = False
    except vf.ToolError:
        print("selftest removed-hook -> rejected")
    # (iii) deviations as model-level mutants
    for dev, (module, cfg) in {"IpfixGreedyTemplate": ("MC_Cache.tla", "MC_Cache_quick.cfg"),
                               "KindPriorityNotRecency": ("MC_Cache.tla", "MC_Cache_quick.cfg"),
                               "IpfixOptionsTemplateFirstOnly": ("MC_Cache.tla", "MC_Cache_quick.cfg"),
                               "IpfixStopAfterBadSet": ("MC_Cache.tla", "MC_Cache_quick.cfg")}.items():
        src = open(os.path.join(vf.SPEC, cfg)).read().replace("Devs = {}", 'Devs = {"%s"}' % dev)
        tmp = os.path.join(vf.SPEC, "_selftest.cfg")
        open(tmp, "w").write(src)
        try:
            r = vf.tlc_model(module, "_selftest.cfg", os.path.join(wd, "m"), workers=8, timeout=600, want_vectors=False)
        finally:
            os.remove(tmp)
        print("selftest model deviation %-32s -> %s %s" % (dev, "violates" if not r["ok"] else "NO VIOLATION", r["errors"][:1]))
        ok = ok and not r["ok"]
    shutil.rmtree(wd, ignore_errors=True)
    print("selftest", "ok" if ok else "FAILED")
    return 0 if ok else 2
