"""Drivers: seeded generators of operation scripts for the harness (DESIGN.md 3.5).

The generators contain no oracle: they only build byte strings.  Whether a generated stream is
conformant, truncated, self-delimiting ... is decided again, from the bytes, by the specification.
An op script is a list of dicts (one JSON object per line for `nfharness run`).
"""
import random
import struct

ALL = [5, 7, 9, 10]


def b16(x):
    return [(x >> 8) & 255, x & 255]


def b32(x):
    return [(x >> 24) & 255, (x >> 16) & 255, (x >> 8) & 255, x & 255]


class Gen:
    def __init__(self, seed, kinds):
        self.r = random.Random(seed)
        self.kinds = kinds  # {"v9": {t: [name, kind]}, "ipfix": {...}}
        self.bykind = {}
        for proto in ("v9", "ipfix"):
            d = {}
            for t, (name, kind) in kinds[proto].items():
                d.setdefault(kind, []).append(int(t))
            self.bykind[proto] = d

    # ------------------------------------------------------------------ values
    def rbytes(self, n, distinct=None):
        r = self.r
        mode = r.random()
        if n == 0:
            return []
        if mode < 0.08:
            return [0] * n
        if mode < 0.16:
            return [255] * n
        if mode < 0.22:
            return [128] + [0] * (n - 1)
        if mode < 0.28:
            return [127] + [255] * (n - 1)
        return [r.randrange(256) for _ in range(n)]

    def value(self, kind, n):
        r = self.r
        if kind == "String":
            m = r.random()
            if m < 0.2 and n > 1:
                # NUL-padded text, as exporters send fixed-length strings
                k = r.randrange(1, n)
                return [r.randrange(97, 123) for _ in range(k)] + [0] * (n - k)
            if m < 0.7:
                return [r.randrange(32, 127) for _ in range(n)]
            if m < 0.85:
                return [r.randrange(0, 128) for _ in range(n)]
            return [r.randrange(256) for _ in range(n)]
        if kind == "ProtocolType":
            m = r.random()
            if m < 0.5:
                return [r.choice([0, 1, 6, 17, 47, 58, 143, 144, 145, 255])]
            return [r.randrange(256)]
        if kind == "Ip6Addr" and r.random() < 0.3:
            # addresses of one interface under different prefixes (global / unique-local / link-local): same low 64 bits
            iid = r.choice([[0x0A, 0, 0x27, 0xFF, 0xFE, 0, 0, 1], [0] * 7 + [1], [0x02, 0x11, 0x22, 0xFF, 0xFE, 0x33, 0x44, 0x55]])
            return r.choice([[0x20, 0x01, 0x0D, 0xB8, 0, 0, 0, 2], [0xFE, 0x80, 0, 0, 0, 0, 0, 0], [0xFD, 0, 0, 0, 0, 0, 0, 7],
                             [0x20, 0x01, 0x0D, 0xB8, 0, 0, 0, 3]]) + iid
        if kind == "Ip6Addr" and r.random() < 0.25:
            # special-purpose addresses: IPv4-mapped, IPv4-compatible, loopback, unspecified, link-local
            return r.choice([[0] * 10 + [255, 255] + [r.randrange(256) for _ in range(4)],
                             [0] * 12 + [r.randrange(1, 256) for _ in range(4)],
                             [0] * 15 + [1], [0] * 16,
                             [0xFE, 0x80] + [0] * 6 + [r.randrange(256) for _ in range(8)]])
        if kind == "Ip4Addr" and r.random() < 0.15:
            return r.choice([[0, 0, 0, 0], [255, 255, 255, 255], [127, 0, 0, 1], [224, 0, 0, 1]])
        if kind == "Float64":
            m = r.random()
            if m < 0.15:
                return r.choice([[0x7F, 0xF0, 0, 0, 0, 0, 0, 0], [0xFF, 0xF0, 0, 0, 0, 0, 0, 0],
                                 [0x7F, 0xF8, 0, 0, 0, 0, 0, 1], [0x80, 0, 0, 0, 0, 0, 0, 0], [0] * 8])
            if m < 0.6:
                return list(struct.pack(">d", r.uniform(-1e6, 1e6)))
            return [r.randrange(256) for _ in range(8)]
        return self.rbytes(n)

    def width(self, kind, proto, allow_var=True):
        r = self.r
        if kind == "UnsignedDataNumber":
            return r.choice([1, 2, 3, 4, 8, 16])
        if kind == "SignedDataNumber":
            return r.choice([1, 2, 3, 4])
        if kind == "Float64":
            return 8
        if kind.startswith("Duration"):
            return r.choice([4, 8, 4, 8, 1, 2, 3])
        if kind == "Ip4Addr":
            return 4
        if kind == "Ip6Addr":
            return 16
        if kind == "MacAddr":
            return 6
        if kind == "ProtocolType":
            return 1
        # String / Vec / Unknown
        if proto == "ipfix" and allow_var and r.random() < 0.35:
            return 65535
        return r.choice([0, 1, 2, 3, 4, 5, 7, 8, 12, 16, 20, 33]) if proto == "ipfix" else r.choice([1, 2, 3, 4, 5, 7, 8, 12, 16, 20, 33])

    COMMON9 = [8, 12, 7, 11, 4, 22, 21, 56, 80, 27, 28, 1, 2]

    def fields(self, proto, n, common_bias=0.4, unknown=True, enterprise=True):
        r = self.r
        out = []
        kinds = self.kinds[proto]
        pool = [int(t) for t in kinds.keys()]
        for _ in range(n):
            m = r.random()
            if m < common_bias:
                t = r.choice(self.COMMON9)
            elif m < common_bias + 0.25:
                # kind-uniform: rare kinds (signed, float, the four duration units, MAC, ...) get their share
                kinds_here = sorted(k for k in self.bykind[proto] if unknown or k != "Unknown")
                t = r.choice(self.bykind[proto][r.choice(kinds_here)])
            elif m < 0.9 or not unknown:
                t = r.choice(pool)
                if not unknown:
                    while kinds[str(t)][1] == "Unknown":
                        t = r.choice(pool)
            else:
                t = r.choice([601, 999, 5000, 32000, 32767] + ([0x8008, 0x8015, 0x8004, 0xFFFF, 40000] if proto == "v9" else []))
            kind = kinds.get(str(t), ["", "Unknown"])[1]
            if not unknown and kind == "Unknown":
                continue
            f = {"t": t, "kind": kind, "len": self.width(kind, proto), "ent": False, "pen": []}
            if proto == "ipfix" and enterprise and r.random() < 0.12:
                f["ent"] = True
                f["pen"] = b32(r.choice([0, 1, 9, 2 ** 32 - 1]) if r.random() < 0.3 else r.randrange(1, 2 ** 32))
                f["kind"] = "Vec"
                f["len"] = r.choice([1, 2, 4, 8, 65535, 6])
            out.append(f)
        if not out:
            out.append({"t": 1, "kind": "UnsignedDataNumber", "len": 4, "ent": False, "pen": []})
        return out

    # ------------------------------------------------------------------ V5 / V7
    def fixed(self, ver, count, proto_iter=None):
        r = self.r
        rec = 48 if ver == 5 else 52
        hdr = b16(ver) + b16(count) + self.rbytes(4) + self.rbytes(4) + self.rbytes(4) + self.rbytes(4) + self.rbytes(4)
        body = []
        for i in range(count):
            # per-field distinct contents: every byte of the record differs from its neighbours
            base = r.randrange(256)
            rb = [(base + 7 * j + 3 * i) % 256 for j in range(rec)] if r.random() < 0.5 else [r.randrange(256) for _ in range(rec)]
            if i > 0 and r.random() < 0.25:
                # a repeat of the previous record (a long flow reported twice), identical or differing in one byte
                # (any field, the padding bytes included)
                rb = list(body[-rec:])
                if r.random() < 0.8:
                    rb[r.randrange(rec)] ^= 1 << r.randrange(8)
            if proto_iter is not None:
                rb[38] = next(proto_iter) % 256
            body += rb
        return hdr + body

    # ------------------------------------------------------------------ V9
    def v9_hdr(self, count):
        return b16(9) + b16(count) + self.rbytes(4) + self.rbytes(4) + self.rbytes(4) + self.rbytes(4)

    @staticmethod
    def set_(id_, body):
        return b16(id_) + b16(len(body) + 4) + body

    def v9_tmpl_rec(self, tid, fs):
        out = b16(tid) + b16(len(fs))
        for f in fs:
            out += b16(f["t"]) + b16(f["len"])
        return out

    def v9_otmpl_rec(self, tid, scope, opts):
        out = b16(tid) + b16(4 * len(scope)) + b16(4 * len(opts))
        for f in scope + opts:
            out += b16(f["t"]) + b16(f["len"])
        return out

    def record(self, fs, proto):
        out = []
        for f in fs:
            n = f["len"]
            if proto == "ipfix" and n == 65535:
                ln = self.r.choice([0, 1, 2, 5, 17, 40, 254, 255, 300]) if self.r.random() < 0.8 else self.r.randrange(0, 400)
                v = self.value(f["kind"], ln)
                if ln >= 255 or self.r.random() < 0.2:
                    out += [255] + b16(ln) + v
                else:
                    out += [ln] + v
            else:
                out += self.value(f["kind"], n)
        return out

    def data_set(self, tid, fs, proto, nrec, pad):
        body = []
        for _ in range(nrec):
            body += self.record(fs, proto)
        return self.set_(tid, body + [0] * pad)

    def minrec(self, fs):
        return sum(1 if f["len"] == 65535 else f["len"] for f in fs)

    # ------------------------------------------------------------------ IPFIX
    def ix_spec(self, f):
        if f["ent"]:
            return b16(f["t"] + 32768) + b16(f["len"]) + f["pen"]
        return b16(f["t"]) + b16(f["len"])

    def ix_tmpl_rec(self, tid, fs):
        out = b16(tid) + b16(len(fs))
        for f in fs:
            out += self.ix_spec(f)
        return out

    def ix_otmpl_rec(self, tid, fs, scope):
        out = b16(tid) + b16(len(fs)) + b16(scope)
        for f in fs:
            out += self.ix_spec(f)
        return out

    def ix_msg(self, sets):
        body = [x for s in sets for x in s]
        # export time, sequence number and observation domain: now and then those of the previous message (template-only
        # messages do not advance the sequence number, so two of them sent within a second carry the same header fields)
        h = getattr(self, "_last_ix_hdr", None)
        if h is None or self.r.random() >= 0.15:
            h = self.rbytes(4) + self.rbytes(4) + self.rbytes(4)
        self._last_ix_hdr = h
        return b16(10) + b16(16 + len(body)) + h + body


class Exporter:
    """A stateful RFC-shaped exporter for one protocol: remembers the templates it has sent."""

    def __init__(self, g, proto, ids=(256, 257, 258, 300, 1000)):
        self.g = g
        self.proto = proto
        self.ids = list(ids)
        self.tm = {}  # id -> ("data", fs) | ("opts", scope, opts) | ("opts", fs, scopecount)

    def new_def(self, tid, kind=None, unknown=True, single_ipfix_record=True):
        g, r = self.g, self.g.r
        kind = kind or ("data" if r.random() < 0.75 else "opts")
        if kind == "data":
            fs = g.fields(self.proto, r.choice([1, 2, 3, 4, 6, 9]), unknown=unknown)
            if self.proto == "ipfix" and all(f["len"] == 0 for f in fs):
                fs[0]["len"] = 4 if fs[0]["kind"] not in ("String", "Vec", "Unknown") else 3
            self.tm[tid] = ("data", fs)
        elif self.proto == "v9":
            scope = [{"t": r.randrange(1, 6), "kind": "Scope", "len": r.choice([1, 2, 4, 8]), "ent": False, "pen": []}
                     for _ in range(r.choice([1, 1, 2]))]
            opts = g.fields("v9", r.choice([1, 2, 3]), unknown=unknown)
            for f in opts:
                if f["len"] == 0:
                    f["len"] = 2
            self.tm[tid] = ("opts", scope, opts)
        else:
            fs = g.fields("ipfix", r.choice([2, 3, 4]), unknown=unknown)
            if all(f["len"] == 0 for f in fs):
                fs[0]["len"] = 3
            self.tm[tid] = ("opts", fs, r.randrange(1, len(fs) + 1))
        return self.tm[tid]

    def tmpl_set(self, tids):
        """one template set holding the records of tids (all of the same kind)"""
        g = self.g
        kind = self.tm[tids[0]][0]
        recs = []
        for t in tids:
            d = self.tm[t]
            if self.proto == "v9":
                recs += g.v9_tmpl_rec(t, d[1]) if d[0] == "data" else g.v9_otmpl_rec(t, d[1], d[2])
            else:
                recs += g.ix_tmpl_rec(t, d[1]) if d[0] == "data" else g.ix_otmpl_rec(t, d[1], d[2])
        pad = [0] * g.r.choice([0, 0, 0, 1, 2, 3])
        if self.proto == "v9":
            return g.set_(0 if kind == "data" else 1, recs + pad)
        return g.set_(2 if kind == "data" else 3, recs + pad)

    def data(self, tid, nrec=None):
        g, r = self.g, self.g.r
        d = self.tm[tid]
        nrec = nrec if nrec is not None else r.choice([1, 1, 2, 3, 5, 9])
        if d[0] == "data":
            fs = d[1]
        elif self.proto == "v9":
            fs = d[1] + d[2]
        else:
            fs = d[1]
        m = g.minrec(fs)
        pad = r.randrange(0, min(4, m)) if m > 0 else 0
        return g.data_set(tid, fs, self.proto, nrec, pad)

    def packet(self, sets):
        g = self.g
        if self.proto == "v9":
            return g.v9_hdr(len(sets)) + [x for s in sets for x in s]
        return g.ix_msg(sets)


_FRESH = random.Random(20261005)


def ops_reset(parsers=("A",), allowed=None):
    # half of the sessions start on a fresh worker thread, the others inherit whatever per-thread state the library
    # keeps (thread_local!) from the sessions before them; process-wide state (statics) is always inherited
    out = [{"op": "reset", "fresh": _FRESH.random() < 0.5}]
    for p in parsers:
        out.append({"op": "new", "p": p, "allowed": allowed if allowed is not None else ALL})
    return out


def call(p, buf):
    return {"op": "call", "p": p, "buf": list(buf)}


# ---------------------------------------------------------------------- drivers
def conformant_session(g, npk=8, unknown=True, multi_tmpl=True, parsers=("A", "B"), chain=True):
    """RFC-shaped interleaved V5/V7/V9/IPFIX streams, redefinitions, several parsers, random cuts."""
    r = g.r
    ops = ops_reset(parsers)
    ex = {p: {"v9": Exporter(g, "v9"), "ipfix": Exporter(g, "ipfix")} for p in parsers}
    pend = {p: [] for p in parsers}
    for _ in range(npk):
        p = r.choice(parsers)
        m = r.random()
        if m < 0.12:
            pk = g.fixed(5, r.choice([0, 1, 2, 3, 30, 31, 33]))     # the documented range is 1-30; the count field governs
        elif m < 0.2:
            pk = g.fixed(7, r.choice([0, 1, 2, 5, 31]))
        elif m < 0.24:
            pk = g.v9_hdr(0) if r.random() < 0.6 else g.ix_msg([])   # header-only packets: 20 / 16 bytes, then the next packet
        else:
            proto = "v9" if r.random() < 0.5 else "ipfix"
            e = ex[p][proto]
            sets = []
            for _ in range(r.choice([1, 1, 2, 3, 4])):
                known = list(e.tm.keys())
                mm = r.random()
                if known and mm < 0.08:
                    # periodic template refresh: the same definition(s) sent again verbatim
                    tids = r.sample(known, min(len(known), r.choice([1, 1, 2]) if multi_tmpl else 1))
                    kinds_ = {e.tm[t][0] for t in tids}
                    if len(kinds_) > 1:
                        tids = tids[:1]
                    fresh = None
                    if multi_tmpl and r.random() < 0.5:
                        # ... together with a new (or changed) definition in the same set, used right away
                        fresh = r.choice([t for t in e.ids if t not in tids] or [None])
                        if fresh is not None:
                            e.new_def(fresh, kind=e.tm[tids[0]][0], unknown=unknown)
                            tids = tids + [fresh]
                    sets.append(e.tmpl_set(tids))
                    if fresh is not None:
                        sets.append(e.data(fresh))
                elif mm < 0.4 or not known:
                    n = r.choice([1, 1, 1, 2, 3]) if multi_tmpl else 1
                    tids = r.sample(e.ids, min(n, len(e.ids)))
                    kind = "data" if r.random() < 0.75 else "opts"
                    for t in tids:
                        e.new_def(t, kind=kind, unknown=unknown)
                    sets.append(e.tmpl_set(tids))
                else:
                    sets.append(e.data(r.choice(known)))
            pk = e.packet(sets)
        pend[p].append(pk)
        # flush: one call per packet, or several packets chained into one buffer
        if not chain or r.random() < 0.6 or len(pend[p]) >= 3:
            o = call(p, [x for k in pend[p] for x in k])
            if chain and r.random() < 0.08:
                o["op"] = "flat"      # parse_bytes_as_netflow_common_flowsets instead of parse_bytes (C13)
            ops.append(o)
            pend[p] = []
    for p in parsers:
        if pend[p]:
            ops.append(call(p, [x for k in pend[p] for x in k]))
    return ops


def protocols_session(g):
    """every one of the 256 protocol numbers, in V5 and V7 records and in a V9 protocol field;
    V5 / V7 packets with the largest record counts that fit a datagram (fully materialised)"""
    it5 = iter(range(256))
    it7 = iter(range(256))
    ops = ops_reset(("A",))
    for _ in range(8):
        ops.append(call("A", g.fixed(5, 32, it5)))
    for _ in range(8):
        ops.append(call("A", g.fixed(7, 32, it7)))
    # V9: template {protocol(1), l4 src port(2)}; 256 records, one per protocol number
    ops.append(call("A", g.v9_hdr(1) + g.set_(0, b16(256) + b16(2) + b16(4) + b16(1) + b16(7) + b16(2))))
    body = [x for pn in range(256) for x in [pn, pn, 255 - pn]]
    ops.append(call("A", g.v9_hdr(1) + g.set_(256, body)))
    ops += ops_reset(("A",))
    ops.append(call("A", g.fixed(5, 1364)))
    ops.append(call("A", g.fixed(7, 1259)))
    ops.append(call("A", g.fixed(5, 1364)[:-1]))        # one byte short of the announced 1364 records
    ops.append(call("A", g.fixed(7, 1259)[:-52]))       # one whole record short
    return ops


def mutate_bytes(g, buf):
    r = g.r
    b = list(buf)
    if not b:
        return [r.randrange(256)]
    for _ in range(r.choice([1, 1, 2, 3])):
        m = r.random()
        if not b:
            b = [r.randrange(256)]
        i = r.randrange(len(b))
        if m < 0.3:
            b[i] = r.randrange(256)
        elif m < 0.5 and len(b) >= 2:
            i = r.randrange(len(b) - 1)
            v = r.choice([0, 1, 2, 3, 4, 5, 65535, 65534, len(b), len(b) - i, max(0, len(b) - i - 1), len(b) - i + 1])
            b[i:i + 2] = b16(v & 0xFFFF)
        elif m < 0.62:
            del b[i:i + r.choice([1, 2, 4, 8])]
        elif m < 0.72:
            b[i:i] = [r.randrange(256) for _ in range(r.choice([1, 2, 4]))]
        elif m < 0.82:
            b = b[:i]
        elif m < 0.9:
            b += [r.randrange(256) for _ in range(r.choice([1, 2, 3, 7, 20]))]
        else:
            b[0:2] = b16(r.choice([5, 7, 9, 10, 9, 10, 0, 1, 8, 11, 65535, 73, 74, 521, 266]))
    return b


def mutate_session(g, npk=10):
    """templates first (attacker-chosen cache), then mutated packets; random allowed sets"""
    r = g.r
    allowed = ALL if r.random() < 0.7 else sorted(set(r.sample([5, 7, 9, 10, 0, 1, 8, 11, 65535], r.randrange(0, 6))))
    ops = ops_reset(("A", "B"), allowed)
    base = conformant_session(g, npk=npk, parsers=("A", "B"))
    for o in base:
        if o["op"] != "call":
            continue
        if r.random() < 0.65:
            o2 = call(o["p"], mutate_bytes(g, o["buf"]))
        else:
            o2 = dict(o)
        if r.random() < 0.1:
            o2["op"] = "flat"        # the flattened common view of buffers that contain errors (C13)
        ops.append(o2)
    return ops


def hostile_templates_session(g):
    """zero-length fields, zero counts, huge counts, then data (C01/C15 history-dependent inputs)"""
    r = g.r
    ops = ops_reset(("A",))
    shapes = []
    for tid in (256, 257, 258, 259):
        n = r.choice([0, 1, 2, 5, 50])
        fs = [(r.choice([1, 4, 8, 21, 56, 94, 999, 27]), r.choice([0, 0, 1, 4, 65535, 3, 16])) for _ in range(n)]
        shapes.append((tid, fs))
    v9t = []
    for tid, fs in shapes:
        v9t += b16(tid) + b16(len(fs)) + [x for t, l in fs for x in b16(t) + b16(l)]
    ops.append(call("A", g.v9_hdr(1) + g.set_(0, v9t)))
    # options templates with zero lengths
    ot = b16(260) + b16(4) + b16(4) + b16(1) + b16(r.choice([0, 4])) + b16(r.choice([1, 94])) + b16(r.choice([0, 2]))
    ops.append(call("A", g.v9_hdr(1) + g.set_(1, ot)))
    for tid, fs in shapes:
        ixt = b16(tid) + b16(len(fs)) + [x for t, l in fs for x in b16(t) + b16(l)]
        ops.append(call("A", g.ix_msg([g.set_(2, ixt)])))
    # options templates whose scope / option lengths are not multiples of four (accepted: len/4 fields, rest padding)
    sl, ol = r.choice([2, 5, 6, 7, 9]), r.choice([3, 5, 6, 10])
    otx = b16(261) + b16(sl) + b16(ol) + [x for _ in range(sl // 4) for x in b16(r.randrange(1, 6)) + b16(2)] \
        + [x for _ in range(ol // 4) for x in b16(r.choice([1, 2, 10])) + b16(2)] + [0] * r.choice([0, 1, 2, 3])
    ops.append(call("A", g.v9_hdr(1) + g.set_(1, otx)))
    ops.append(call("A", g.v9_hdr(1) + g.set_(261, g.rbytes(r.choice([4, 8, 12])))))
    for tid in (256, 257, 258, 259, 260):
        body = [r.randrange(256) for _ in range(r.choice([0, 1, 4, 16, 64, 300]))]
        ops.append(call("A", g.v9_hdr(1) + g.set_(tid, body)))
        ops.append(call("A", g.ix_msg([g.set_(tid, body)])))
    # a V9 header announcing no flowsets, followed by bytes that would read as flowsets (a template, data for a cached
    # id): the packet is its 20 header bytes, what follows starts with "version" 0 / 256
    # the lowest IPFIX set id that is looked up as a data set (255): unknown, then defined, then used
    ops.append(call("A", g.ix_msg([g.set_(255, g.rbytes(12))])))
    ops.append(call("A", g.ix_msg([g.set_(2, b16(255) + b16(2) + b16(8) + b16(4) + b16(12) + b16(4))])))
    ops.append(call("A", g.ix_msg([g.set_(255, g.rbytes(16))])))
    # a data flowset for a cached id whose length word is below 4 (accepted with an empty body), among ordinary ones
    tid = r.choice([256, 257, 258, 259])
    ops.append(call("A", g.v9_hdr(2) + b16(tid) + b16(r.choice([0, 1, 2, 3])) + g.set_(tid, g.rbytes(8))))
    ops.append(call("A", g.v9_hdr(0) + g.set_(0, b16(262) + b16(1) + b16(8) + b16(4))))
    ops.append(call("A", g.v9_hdr(0) + g.set_(r.choice([256, 257, 258]), g.rbytes(16))))
    # value kinds that re-export losslessly (addresses, unsigned numbers, opaque bytes), declared at widths they do not
    # naturally have: whatever is accepted must still re-export to the bytes received (C09 / C10 speak of every accepted
    # packet), and no lossy kind is there to explain a difference
    for proto in ("v9", "ipfix"):
        tid = r.choice([263, 264])
        n = r.choice([1, 1, 2, 3])
        fs = [(r.choice([8, 12, 15, 27, 28, 62, 1, 2, 10, 999]), r.choice([1, 2, 3, 5, 6, 8, 12, 16, 20])) for _ in range(n)]
        if r.random() < 0.5:
            fs.insert(r.randrange(len(fs) + 1), (r.choice([8, 12, 27, 28]), r.choice([4, 16])))
        rec = b16(tid) + b16(len(fs)) + [x for t, l in fs for x in b16(t) + b16(l)]
        size = sum(l for _, l in fs)
        body = g.rbytes(size * r.choice([1, 2, 3]) + r.choice([0, 0, 1, 2, 3]))
        if proto == "v9":
            ops.append(call("A", g.v9_hdr(1) + g.set_(0, rec)))
            ops.append(call("A", g.v9_hdr(1) + g.set_(tid, body)))
        else:
            ops.append(call("A", g.ix_msg([g.set_(2, rec)])))
            ops.append(call("A", g.ix_msg([g.set_(tid, body)])))
    return ops


def truncate_session(g):
    """every proper prefix of a valid packet, alone and after valid packets"""
    r = g.r
    ops = []
    e9 = Exporter(g, "v9")
    e10 = Exporter(g, "ipfix")
    for e in (e9, e10):
        e.new_def(256, kind="data", unknown=False)
    pk9t = e9.packet([e9.tmpl_set([256])])
    pk10t = e10.packet([e10.tmpl_set([256])])
    pk9 = e9.packet([e9.data(256, 2)])
    pk10 = e10.packet([e10.data(256, 2)])
    pk9b = e9.packet([e9.tmpl_set([256]), e9.data(256, 1)])
    pk10b = e10.packet([e10.tmpl_set([256]), e10.data(256, 1)])
    v5 = g.fixed(5, 2)
    v7 = g.fixed(7, 1)
    cands = [("v5", v5), ("v7", v7), ("v9", pk9), ("ipfix", pk10), ("v9", pk9b), ("ipfix", pk10b)]
    for name, pk in cands:
        prefix_sets = [[], [v5], [pk10t + pk10]]
        pre = r.choice(prefix_sets)
        cuts = list(range(1, len(pk)))
        if len(cuts) > 40:
            cuts = sorted(set(r.sample(cuts, 30) + [1, 2, 3, 15, 16, 17, 19, 20, 21, 23, 24, 25, len(pk) - 1]))
            cuts = [c for c in cuts if 0 < c < len(pk)]
        for c in cuts:
            ops += ops_reset(("A",))
            ops.append(call("A", pk9t))
            ops.append(call("A", pk10t))
            ops.append(call("A", [x for k in pre for x in k] + pk[:c]))
    return ops


def bigcount_session(g):
    """V5 / V7 headers announcing more records than a datagram can hold (count * 48 / 52 passes 65 535, where 16-bit
    length arithmetic wraps), over bodies of every interesting size: nothing, the wrapped length, a little more, a
    few whole records.  All of them are cut packets: an error, never a packet (C03, C14, C02)."""
    r = g.r
    ops = ops_reset(("A",))
    for ver, size in ((5, 48), (7, 52)):
        edge = 65536 // size            # first count whose byte length needs more than 16 bits
        for c in sorted({edge - 1, edge, edge + 1, edge + 2, 2 * edge, 2 * edge + 1, 2 * edge + 2, r.randrange(edge, 65536), 32768, 65535}):
            w = (c * size) % 65536
            hdr = g.fixed(ver, 0)
            hdr[2:4] = b16(c)
            for n in sorted({0, w, w + size, w + 2 * size, 36, size, 3 * size, r.randrange(1, 400)}):
                if n <= 4000:
                    ops.append(call("A", hdr + g.rbytes(n)))
    return ops


# ---------------------------------------------------------------------- relational rounds
def packet_sequence(g, n, ex9, ex10, self_delimiting=True):
    """n conformant packets over one pair of exporters (templates before data), each self-delimiting"""
    r = g.r
    pks = []
    for _ in range(n):
        m = r.random()
        if m < 0.2:
            pks.append((5, g.fixed(5, r.choice([0, 1, 2, 2, 31]))))
        elif m < 0.3:
            pks.append((7, g.fixed(7, r.choice([0, 1, 2, 2, 29]))))
        elif m < 0.36:
            pks.append((10, g.ix_msg([])))              # a message with no sets: 16 bytes
            if r.random() < 0.5:                         # ... and its twin: same export time, sequence number, domain
                pks.append((10, list(pks[-1][1])))
        elif m < 0.40:
            pks.append((9, g.v9_hdr(0)))                # a V9 header announcing no flowsets: 20 bytes
        else:
            proto = "v9" if r.random() < 0.5 else "ipfix"
            e = ex9 if proto == "v9" else ex10
            sets = []
            unknown_ids = [t for t in e.ids if t not in e.tm]
            if proto == "ipfix" and unknown_ids and r.random() < 0.3:
                # data that arrives ahead of its template: the set is omitted, the message is still self-delimiting
                sets.append(g.set_(r.choice(unknown_ids), g.rbytes(r.choice([4, 8, 20]))))
            for _ in range(r.choice([1, 1, 2, 3])):
                known = list(e.tm.keys())
                if r.random() < 0.45 or not known:
                    ts = r.sample(e.ids, r.choice([1, 1, 2, 3]))      # one template set may carry several templates
                    for t in ts:
                        e.new_def(t, kind="data", unknown=r.random() < 0.3)
                    sets.append(e.tmpl_set(ts))
                else:
                    sets.append(e.data(r.choice(known)))
            if proto == "ipfix" and r.random() < 0.12:
                # a last set whose length word runs past the end of the message (the message, delivered alone, is
                # reported without it): what follows in the buffer belongs to the next packet, never to this set
                known = list(e.tm.keys())
                if known and r.random() < 0.7:
                    ds = e.data(r.choice(known))
                else:
                    ds = g.set_(2, b16(r.choice([700, 701])) + b16(2) + b16(8) + b16(4) + b16(12) + b16(4))
                k = r.randrange(1, max(2, min(9, len(ds) - 3)))
                sets.append(ds[:len(ds) - k])
            pks.append((9 if proto == "v9" else 10, e.packet(sets)))
    return pks


def cuts(g, n):
    """a random partition of n packets into consecutive groups"""
    groups, cur = [], []
    for i in range(n):
        cur.append(i)
        if g.r.random() < 0.5:
            groups.append(cur)
            cur = []
    if cur:
        groups.append(cur)
    return groups


def rounds_session(g):
    r = g.r
    ops = []
    # ---- chain (C11, C06 partition independence)
    ex9, ex10 = Exporter(g, "v9"), Exporter(g, "ipfix")
    pks = packet_sequence(g, r.choice([2, 3, 4, 6, 8, 12]), ex9, ex10)
    if r.random() < 0.3:
        # the last packet is one that is reported as an error when delivered alone: data for a template nobody
        # announced (V9), or a cut packet
        bad = r.choice([g.v9_hdr(1) + g.set_(999, g.rbytes(8)), g.fixed(5, 2)[:-5], g.ix_msg([g.set_(2, b16(300) + b16(1) + b16(1) + b16(4))])[:-3]])
        pks.append((0, bad))
    ops += ops_reset(("W", "S", "F", "T", "G"))
    ops.append(call("W", [x for _, pk in pks for x in pk]))
    ops.append(call("T", [x for _, pk in pks for x in pk]))
    # S (random groups), F and G (one packet per call) run out of phase with each other: the calls of the three
    # parsers are merged in a random order that keeps each parser's own order (parsers share nothing, C06)
    seqs = [[call("S", [x for i in grp for x in pks[i][1]]) for grp in cuts(g, len(pks))],
            [call("F", pk) for _, pk in pks], [call("G", pk) for _, pk in pks]]
    while any(seqs):
        q = r.choice([q for q in seqs if q])
        for _ in range(r.choice([1, 1, 2, 3])):
            if q:
                ops.append(q.pop(0))
    ops.append({"op": "round", "kind": "chain", "a": "W", "b": "F", "c": ""})
    ops.append({"op": "round", "kind": "chain", "a": "S", "b": "F", "c": ""})
    ops.append({"op": "round", "kind": "twins", "a": "W", "b": "T", "c": ""})
    ops.append({"op": "round", "kind": "twins", "a": "F", "b": "G", "c": ""})
    # ---- filter (C12)
    ex9, ex10 = Exporter(g, "v9"), Exporter(g, "ipfix")
    hist = packet_sequence(g, r.choice([0, 2, 4]), ex9, ex10)
    pks = packet_sequence(g, r.choice([1, 2, 3, 5]), ex9, ex10)
    # extra numbers, some congruent to a supported version modulo 64 / 256 (73 = 9 + 64, 266 = 10 + 256, ...)
    extra = r.choice([[], [1], [8], [0, 65535], [73], [74, 69], [266, 1285], [521]])
    S = sorted(set(r.sample([5, 7, 9, 10], r.randrange(0, 5)) + extra))
    if extra and r.random() < 0.5:
        S = sorted(set(S) - {9, 10} | set(extra))      # exercise "extra allowed, its look-alike supported version not"
    if r.random() < 0.3:
        pks.insert(r.randrange(len(pks) + 1), (extra[0] if extra else 3, b16(extra[0] if extra else 3) + g.rbytes(r.choice([2, 10, 30]))))
    everything = sorted(set([5, 7, 9, 10] + extra + [3]))
    ops += ops_reset(("a", "b", "c"), everything)
    for p in ("a", "b", "c"):
        for _, pk in hist:
            ops.append(call(p, pk))
    # results accumulate from `new`: use fresh accumulators by re-creating parsers is not possible (state), so
    # the history is part of all three accumulations alike
    ops.append({"op": "allow", "p": "a", "allowed": S})
    ops.append({"op": "round", "kind": "mark", "a": "", "b": "", "c": ""})
    buf = [x for _, pk in pks for x in pk]
    k = next((i for i, (v, _) in enumerate(pks) if v not in S), len(pks))
    ops.append(call("a", buf))
    ops.append(call("b", buf))
    pre = [x for _, pk in pks[:k] for x in pk]
    if pre:
        ops.append(call("c", pre))
    ops.append({"op": "round", "kind": "filter", "a": "a", "b": "b", "c": "c"})
    # widen the set again: from now on parser a must behave as one that allows everything (the set is read at every call)
    ops.append({"op": "allow", "p": "a", "allowed": everything})
    ops.append({"op": "round", "kind": "mark", "a": "", "b": "", "c": ""})
    more = packet_sequence(g, r.choice([1, 2, 3]), ex9, ex10)
    buf2 = [x for _, pk in more for x in pk]
    ops.append(call("a", buf2))
    ops.append(call("b", buf2))
    if pre and k == len(pks):
        ops.append({"op": "round", "kind": "twinsout", "a": "a", "b": "b", "c": ""})
    # replace one member of the set by another number (same size, different set): the next call is filtered by the new
    # set (judged against the reference run under the new set)
    gone = r.choice([5, 7, 9, 10])
    swapped = sorted(set(everything) - {gone} | {r.choice([2, 11, 12, 4096])})
    ops.append({"op": "allow", "p": "a", "allowed": swapped})
    ops.append({"op": "round", "kind": "mark", "a": "", "b": "", "c": ""})
    more = packet_sequence(g, r.choice([2, 3, 4]), ex9, ex10)
    ops.append(call("a", [x for _, pk in more for x in pk]))
    # ---- trunc (C14)
    ex9, ex10 = Exporter(g, "v9"), Exporter(g, "ipfix")
    hist = packet_sequence(g, 3, ex9, ex10)
    pks = packet_sequence(g, r.choice([0, 1, 2]), ex9, ex10)
    last = packet_sequence(g, 1, ex9, ex10)[0]
    while len(last[1]) < 3:
        last = packet_sequence(g, 1, ex9, ex10)[0]
    cut = r.randrange(1, len(last[1]))
    ops += ops_reset(("a", "b"))
    for p in ("a", "b"):
        for _, pk in hist:
            ops.append(call(p, pk))
    ops.append({"op": "round", "kind": "mark", "a": "", "b": "", "c": ""})
    whole = [x for _, pk in pks for x in pk]
    ops.append(call("a", whole + last[1][:cut]))
    if whole:
        ops.append(call("b", whole))
    ops.append({"op": "round", "kind": "trunc", "a": "a", "b": "b", "c": ""})
    return ops


# ---------------------------------------------------------------------- scale (C01 / C15)
def scale_sessions(g, tier):
    """adversarial large inputs: deep chains, huge record counts, counts announcing absent bytes,
    templates with thousands of fields, zero-length inflation (each in its own session)"""
    r = g.r
    S = []

    def sess(*bufs):
        ops = ops_reset(("A",))
        for b in bufs:
            ops.append(call("A", b))
        S.append(ops)
    hx = lambda n: b16(10) + b16(n) + [0] * 12
    # 1. datagram packed with minimal packets
    sess(hx(16) * 4095)
    sess((b16(5) + b16(0) + [0] * 20) * 2730)
    sess((b16(9) + b16(0) + [0] * 16) * 3276)
    # 2. maximal record counts
    sess(g.fixed(5, 1364))
    sess(g.fixed(7, 1259))
    # 3. one-byte records: IPFIX and V9 data sets with tens of thousands of records
    t1 = g.ix_msg([g.set_(2, b16(256) + b16(1) + b16(4) + b16(1))])
    for n in ((8000, 20000) if tier == "quick" else (8000, 30000, 65000)):
        body = [i % 251 for i in range(n)]
        sess(t1, b16(10) + b16(20 + n) + [0] * 12 + b16(256) + b16(4 + n) + body)
    v1 = g.v9_hdr(1) + g.set_(0, b16(256) + b16(1) + b16(4) + b16(1))
    for n in ((8000,) if tier == "quick" else (8000, 65000)):
        body = [i % 251 for i in range(n)]
        sess(v1, g.v9_hdr(1) + b16(256) + b16(4 + n) + body)
    # 4. headers announcing 65535 records / fields / flowsets over short bodies
    sess(b16(5) + b16(65535) + [0] * 20 + [1] * 48)
    sess(b16(7) + b16(65535) + [0] * 20 + [1] * 52)
    sess(b16(9) + b16(65535) + [0] * 16 + g.set_(0, b16(256) + b16(65535) + b16(1) + b16(4)))
    sess(g.ix_msg([g.set_(2, b16(256) + b16(65535) + b16(1) + b16(4))]))
    sess(g.ix_msg([g.set_(3, b16(256) + b16(65535) + b16(65535) + b16(1) + b16(4))]))
    sess(b16(9) + b16(65535) + [0] * 16 + g.set_(1, b16(256) + b16(65535) + b16(65535) + b16(1) + b16(4)))
    # 5. templates with thousands of fields, then data
    nf = 4000 if tier == "quick" else 16000
    big = b16(256) + b16(nf) + [x for i in range(nf) for x in b16(1 + i % 90) + b16(1)]
    sess(g.v9_hdr(1) + g.set_(0, big[:65000]), g.v9_hdr(1) + g.set_(256, [7] * 60000))
    bigx = b16(256) + b16(nf) + [x for i in range(nf) for x in b16(1 + i % 90) + b16(1)]
    sess(g.ix_msg([g.set_(2, bigx[:65000])]), g.ix_msg([g.set_(256, [7] * 60000)]))
    # 6. zero-length fields: many fields of length 0 plus one of length 1 -> records of 1 byte with many values
    for nz in ((100, 400) if tier == "quick" else (100, 1500, 4000, 15000)):
        zt = b16(256) + b16(nz + 1) + [x for _ in range(nz) for x in b16(94) + b16(0)] + b16(1) + b16(1)
        sess(g.ix_msg([g.set_(2, zt)]), g.ix_msg([g.set_(256, [9] * 2000)]))
        zt9 = b16(256) + b16(nz + 1) + [x for _ in range(nz) for x in b16(94) + b16(0)] + b16(1) + b16(1)
        sess(g.v9_hdr(1) + g.set_(0, zt9), g.v9_hdr(1) + g.set_(256, [9] * 2000))
    # 7. variable-length fields with zero-length values: thousands of 1-byte records
    vt = g.ix_msg([g.set_(2, b16(256) + b16(1) + b16(94) + b16(65535))])
    big_n = 15000 if tier == "quick" else 60000
    sess(vt, g.ix_msg([g.set_(256, [0] * big_n)]))
    # 8. many small sets in one message / packet
    ns = 4000 if tier == "quick" else 12000
    sess(t1, g.ix_msg([g.set_(256, [1])] * ns))
    sess(v1, b16(9) + b16(ns) + [0] * 16 + g.set_(256, [1]) * ns)
    sess(b16(9) + b16(16000) + [0] * 16 + [0, 0, 0, 4] * 16000)
    # 8b. V7 packed; a template whose field lengths sum to just over 65535 (wrap-around of the record size)
    sess((b16(7) + b16(0) + [0] * 20) * 2730)
    wf = 2000
    wrap = b16(256) + b16(wf) + b16(1) + b16(65537 - 4 * (wf - 1)) + [x for _ in range(wf - 1) for x in b16(2) + b16(4)]
    sess(g.v9_hdr(1) + g.set_(0, wrap), g.v9_hdr(1) + g.set_(256, [5] * 28000))
    sess(g.ix_msg([g.set_(2, wrap)]), g.ix_msg([g.set_(256, [5] * 28000)]))
    # 9. a large cache, then a buffer packed with small template flowsets / sets (cost must not be cache x sets)
    nt = 1200 if tier == "quick" else 1500
    many_ot = [x for i in range(nt) for x in b16(2000 + i) + b16(4) + b16(4) + b16(1) + b16(2) + b16(2) + b16(2)]
    many_t = [x for i in range(nt) for x in b16(0) + b16(12) + b16(4000 + i) + b16(1) + b16(1) + b16(4)]
    sess(g.v9_hdr(1) + g.set_(1, many_ot), b16(9) + b16(nt) + [0] * 16 + many_t)
    many_t9 = [x for i in range(nt) for x in b16(2000 + i) + b16(1) + b16(1) + b16(4)]
    many_os = [x for i in range(nt) for x in b16(1) + b16(18) + b16(4000 + i) + b16(4) + b16(4) + b16(1) + b16(2) + b16(2) + b16(2)]
    sess(g.v9_hdr(1) + g.set_(0, many_t9), b16(9) + b16(nt) + [0] * 16 + many_os)
    ix_ot = g.ix_msg([g.set_(3, b16(2000 + i) + b16(2) + b16(1) + b16(1) + b16(4) + b16(2) + b16(4)) for i in range(nt)])
    ix_t = g.ix_msg([g.set_(2, b16(4000 + i) + b16(1) + b16(1) + b16(4)) for i in range(nt)])
    sess(ix_ot, ix_t)
    sess(ix_t, g.ix_msg([g.set_(3, b16(2000 + i) + b16(2) + b16(1) + b16(1) + b16(4) + b16(2) + b16(4)) for i in range(nt)]))
    # 10. a large cache (several datagrams of wide templates, both kinds, both protocols), then buffers that use none of
    #     it: one minimal packet, and a datagram packed with minimal packets (cost must not be cache x packets)
    wide9 = lambda base: g.v9_hdr(1) + g.set_(0, [x for i in range(40) for x in b16(base + i) + b16(300) + [y for j in range(300) for y in b16(1 + (j % 80)) + b16(4)]])
    widex = lambda base: g.ix_msg([g.set_(2, b16(base + i) + b16(300) + [y for j in range(300) for y in b16(1 + (j % 80)) + b16(4)]) for i in range(40)])
    sess(wide9(3000), wide9(3100), wide9(3200), widex(3000), widex(3100), widex(3200),
         hx(16), g.v9_hdr(0), hx(16) * 1000, (b16(9) + b16(0) + [0] * 16) * 800, (b16(5) + b16(0) + [0] * 20) * 600)
    # 11. an IPFIX template record announcing far more fields than it carries (accepted: the specifiers present are
    #     the template), then many short records under it (cost must not be announced count x records)
    for announced in (4096, 65535):
        lying = g.ix_msg([g.set_(2, b16(5000) + b16(announced) + b16(4) + b16(1))])
        sess(lying, g.ix_msg([g.set_(5000, [7] * 400)]), g.ix_msg([g.set_(5000, [7] * 3000)]))
    ops = []
    for s in S:
        ops += s
    return ops


def floats_session(g):
    """IPFIX Float64 fields with NaN / infinities / signed zero, a 16-byte counter, an empty string (C16 quantifier)"""
    r = g.r
    tm = b16(256) + b16(4) + b16(311) + b16(8) + b16(1) + b16(16) + b16(320) + b16(8) + b16(147) + b16(0)
    specials = [[0x7F, 0xF8, 0, 0, 0, 0, 0, 1], [0x7F, 0xF0, 0, 0, 0, 0, 0, 0], [0xFF, 0xF0, 0, 0, 0, 0, 0, 0],
                [0x80, 0, 0, 0, 0, 0, 0, 0], [0x3F, 0xF8, 0, 0, 0, 0, 0, 0], [0x7F, 0xEF, 255, 255, 255, 255, 255, 255]]
    recs = []
    for _ in range(r.choice([1, 2, 4])):
        recs += r.choice(specials) + r.choice([[255] * 16, [0] * 15 + [1], g.rbytes(16)]) + r.choice(specials)
    msg = g.ix_msg([g.set_(2, tm), g.set_(256, recs)])
    return ops_reset(("A",)) + [call("A", msg)]


def struct_session(g, tier):
    """C08 second half: V5/V7 structures built field by field (count = number of records)"""
    r = g.r
    ops = ops_reset(("A",))
    L5h = [("sys_up_time", 4), ("unix_secs", 4), ("unix_nsecs", 4), ("flow_sequence", 4), ("engine_type", 1), ("engine_id", 1), ("sampling_interval", 2)]
    L7h = [("sys_up_time", 4), ("unix_secs", 4), ("unix_nsecs", 4), ("flow_sequence", 4), ("reserved", 4)]
    L5r = [("src_addr", 4), ("dst_addr", 4), ("next_hop", 4), ("input", 2), ("output", 2), ("d_pkts", 4), ("d_octets", 4), ("first", 4), ("last", 4),
           ("src_port", 2), ("dst_port", 2), ("pad1", 1), ("tcp_flags", 1), ("protocol_number", 1), ("tos", 1), ("src_as", 2), ("dst_as", 2),
           ("src_mask", 1), ("dst_mask", 1), ("pad2", 2)]
    L7r = [("src_addr", 4), ("dst_addr", 4), ("next_hop", 4), ("input", 2), ("output", 2), ("d_pkts", 4), ("d_octets", 4), ("first", 4), ("last", 4),
           ("src_port", 2), ("dst_port", 2), ("flags_fields_valid", 1), ("tcp_flags", 1), ("protocol_number", 1), ("tos", 1), ("src_as", 2),
           ("dst_as", 2), ("src_mask", 1), ("dst_mask", 1), ("flags_fields_invalid", 2), ("router_src", 4)]
    counts = [0, 1, 2, 30, 31, 64] if tier == "quick" else [0, 1, 2, 29, 30, 31, 32, 64, 200, 1259, 1364]
    for ver, hl, rl in ((5, L5h, L5r), (7, L7h, L7r)):
        for c in counts:
            if ver == 7 and c > 1259:
                continue
            hdr = {n: g.rbytes(w) for n, w in hl}
            hdr["count"] = c
            recs = [{n: g.rbytes(w) for n, w in rl} for _ in range(c)]
            ops.append({"op": "struct", "v": ver, "hdr": hdr, "recs": recs})
        # structures outside the statement (count differs from the number of records: no verdict on them) exported
        # in between: what they leave behind must not reach the structures the statement is about
        for c, n in ((1, 3), (2, 2), (5, 2), (1, 1), (0, 2), (3, 3)):
            hdr = {n_: g.rbytes(w) for n_, w in hl}
            hdr["count"] = c
            recs = [{n_: g.rbytes(w) for n_, w in rl} for _ in range(n)]
            ops.append({"op": "struct", "v": ver, "hdr": hdr, "recs": recs})
    return ops


def many_templates_session(g, n=1100, proto="v9"):
    """more template ids than any plausible cache bound, then data for the oldest, the newest and a sample of ids;
    a twin parser is fed the same history (nothing may be evicted, C06; two parsers must agree, C16)"""
    r = g.r
    ops = ops_reset(("A", "B"))
    if proto == "v9":
        recs = []
        for i in range(n):
            recs += b16(256 + i) + b16(1) + b16(1) + b16(4)
        bufs = [g.v9_hdr(1) + g.set_(0, recs)]
    else:
        bufs = [g.ix_msg([g.set_(2, b16(256 + i) + b16(1) + b16(1) + b16(4)) for i in range(n)])]
    ids = [256, 257, 256 + n // 2, 256 + n - 2, 256 + n - 1] + [256 + r.randrange(n) for _ in range(20)]
    for t in ids:
        if proto == "v9":
            bufs.append(g.v9_hdr(1) + g.set_(t, g.rbytes(8)))
        else:
            bufs.append(g.ix_msg([g.set_(t, g.rbytes(8))]))
    for p in ("A", "B"):
        for b in bufs:
            ops.append(call(p, b))
    ops.append({"op": "round", "kind": "twins", "a": "A", "b": "B", "c": ""})
    return ops


def long_chain_session(g, nbulk=5):
    """C11 over a buffer far beyond one datagram: a V9 packet that defines and uses a template, ~300 KB of other packets,
    a V9 data packet for the template learnt at the very beginning; whole, per packet and in two halves"""
    r = g.r
    e = Exporter(g, "v9")
    t = r.choice(e.ids)
    e.new_def(t, kind="data", unknown=False)
    pks = [e.packet([e.tmpl_set([t]), e.data(t)])]
    # the bulk: IPFIX messages of ~64 KB whose one data set refers to a template nobody announced (it is skipped, so the
    # decoded result stays small), with a few full-size V5/V7 packets in between
    for i in range(nbulk):
        pks.append(g.ix_msg([g.set_(r.choice([400, 5000, 65535]), g.rbytes(r.choice([65000, 65515, 60001])))]))
        if r.random() < 0.6:
            pks.append(g.fixed(5, 30) if r.random() < 0.7 else g.fixed(7, 28))
    pks.append(e.packet([e.data(t)]))
    ops = ops_reset(("W", "S", "F"))
    ops.append(call("W", [x for pk in pks for x in pk]))
    k = r.randrange(1, len(pks))
    ops.append(call("S", [x for pk in pks[:k] for x in pk]))
    ops.append(call("S", [x for pk in pks[k:] for x in pk]))
    for pk in pks:
        ops.append(call("F", pk))
    ops.append({"op": "round", "kind": "chain", "a": "W", "b": "F", "c": ""})
    ops.append({"op": "round", "kind": "chain", "a": "S", "b": "F", "c": ""})
    return ops


def late_template_session(g, proto, kind):
    """C07, last clause: data for a template the parser does not hold yet, then the template, then the same data bytes"""
    r = g.r
    e = Exporter(g, proto)
    x = r.choice(e.ids)
    e.new_def(x, kind=kind, unknown=False)
    data = e.packet([e.data(x, r.choice([1, 2, 3]))])
    tmpl = e.packet([e.tmpl_set([x])])
    ops = ops_reset(("A",))
    if r.random() < 0.5:
        y = r.choice([t for t in e.ids if t != x])
        e.new_def(y, kind="data", unknown=False)
        ops.append(call("A", e.packet([e.tmpl_set([y]), e.data(y, 1)])))      # some unrelated history first
        ops.append({"op": "round", "kind": "mark", "a": "", "b": "", "c": ""})
    ops.append(call("A", data))
    ops.append(call("A", tmpl))
    ops.append(call("A", data))
    ops.append({"op": "round", "kind": "late", "a": "A", "b": "", "c": ""})
    return ops


def lagged_twins_session(g, proto):
    """two parsers fed the same calls, the second one two to three calls behind the first, over a stream that redefines
    a template id (different record size) between two data packets for it: whatever one instance has learnt, decoded
    or memoised must not reach the other (C06 isolation, C16 same history => same JSON)"""
    r = g.r
    e = Exporter(g, proto)
    x, y = r.sample(e.ids, 2)
    pks = []
    for rep in range(r.choice([2, 3])):
        e.new_def(x, kind="data", unknown=False)
        if rep == 0 or r.random() < 0.5:
            e.new_def(y, kind=r.choice(["data", "opts"]), unknown=False)
            pks.append(e.packet([e.tmpl_set([x])]))
            pks.append(e.packet([e.tmpl_set([y])]))
        else:
            pks.append(e.packet([e.tmpl_set([x])]))
        pks.append(e.packet([e.data(x, r.choice([2, 3, 5]))]))
        if r.random() < 0.5:
            pks.append(e.packet([e.data(y, 2)]))
    lag = r.choice([2, 3])
    ops = ops_reset(("P", "Q"))
    n = len(pks)
    for i in range(n + lag):
        if i < n:
            ops.append(call("P", pks[i]))
        if 0 <= i - lag < n:
            ops.append(call("Q", pks[i - lag]))
    ops.append({"op": "round", "kind": "twins", "a": "P", "b": "Q", "c": ""})
    return ops


def dup_templates_session(g):
    """one template flowset / set that defines the same id more than once among several ids, fed to twin parsers:
    the last definition wins, the reported order is the sent order, and two parsers agree (C06, C16)"""
    r = g.r
    ops = ops_reset(("A", "B"))
    ids = [256 + i for i in range(8)]
    order = ids + [r.choice(ids), r.choice(ids)]
    r.shuffle(order)
    recs = []
    for k, t in enumerate(order):
        recs += b16(t) + b16(2) + b16(1) + b16(r.choice([1, 2, 4])) + b16(2 + k % 5) + b16(4)
    bufs = [g.v9_hdr(1) + g.set_(0, recs)]
    for t in ids[:3]:
        bufs.append(g.v9_hdr(1) + g.set_(t, g.rbytes(24)))
    for p in ("A", "B"):
        for b in bufs:
            ops.append(call(p, b))
    ops.append({"op": "round", "kind": "twins", "a": "A", "b": "B", "c": ""})
    return ops
