"""Drivers: seeded generators of operation scripts for the harness (DESIGN.md 3.5).

The generators contain no oracle: they only build byte strings.  Whether a generated stream is
conformant, truncated, self-delimiting ... is decided again, from the bytes, by the specification.
An op script is a list of dicts (one JSON object per line for `nfharness run`).
"""
import random
import struct

ALL = [5, 7, 9, 10]


def b16(x):
    return [(x >> 8) & 255, x & 255]


def b32(x):
    return [(x >> 24) & 255, (x >> 16) & 255, (x >> 8) & 255, x & 255]


class Gen:
    def __init__(self, seed, kinds):
        self.r = random.Random(seed)
        self.kinds = kinds  # {"v9": {t: [name, kind]}, "ipfix": {...}}
        self.bykind = {}
        for proto in ("v9", "ipfix"):
            d = {}
            for t, (name, kind) in kinds[proto].items():
                d.setdefault(kind, []).append(int(t))
            self.bykind[proto] = d

    # ------------------------------------------------------------------ values
    def rbytes(self, n, distinct=None):
        r = self.r
        mode = r.random()
        if n == 0:
            return []
        if mode < 0.08:
            return [0] * n
        if mode < 0.16:
            return [255] * n
        if mode < 0.22:
            return [128] + [0] * (n - 1)
        if mode < 0.28:
            return [127] + [255] * (n - 1)
        return [r.randrange(256) for _ in range(n)]

    def value(self, kind, n):
        r = self.r
        if kind == "String":
            m = r.random()
            if m < 0.7:
                return [r.randrange(32, 127) for _ in range(n)]
            if m < 0.85:
                return [r.randrange(0, 128) for _ in range(n)]
            return [r.randrange(256) for _ in range(n)]
        if kind == "ProtocolType":
            m = r.random()
            if m < 0.5:
                return [r.choice([0, 1, 6, 17, 47, 58, 143, 144, 145, 255])]
            return [r.randrange(256)]
        if kind == "Float64":
            m = r.random()
            if m < 0.15:
                return r.choice([[0x7F, 0xF0, 0, 0, 0, 0, 0, 0], [0xFF, 0xF0, 0, 0, 0, 0, 0, 0],
                                 [0x7F, 0xF8, 0, 0, 0, 0, 0, 1], [0x80, 0, 0, 0, 0, 0, 0, 0], [0] * 8])
            if m < 0.6:
                return list(struct.pack(">d", r.uniform(-1e6, 1e6)))
            return [r.randrange(256) for _ in range(8)]
        return self.rbytes(n)

    def width(self, kind, proto, allow_var=True):
        r = self.r
        if kind == "UnsignedDataNumber":
            return r.choice([1, 2, 3, 4, 8, 16])
        if kind == "SignedDataNumber":
            return r.choice([1, 2, 3, 4])
        if kind == "Float64":
            return 8
        if kind.startswith("Duration"):
            return r.choice([4, 8, 4, 8, 1, 2, 3])
        if kind == "Ip4Addr":
            return 4
        if kind == "Ip6Addr":
            return 16
        if kind == "MacAddr":
            return 6
        if kind == "ProtocolType":
            return 1
        # String / Vec / Unknown
        if proto == "ipfix" and allow_var and r.random() < 0.35:
            return 65535
        return r.choice([0, 1, 2, 3, 4, 5, 7, 8, 12, 16, 20, 33]) if proto == "ipfix" else r.choice([1, 2, 3, 4, 5, 7, 8, 12, 16, 20, 33])

    COMMON9 = [8, 12, 7, 11, 4, 22, 21, 56, 80, 27, 28, 1, 2]

    def fields(self, proto, n, common_bias=0.4, unknown=True, enterprise=True):
        r = self.r
        out = []
        kinds = self.kinds[proto]
        pool = [int(t) for t in kinds.keys()]
        for _ in range(n):
            m = r.random()
            if m < common_bias:
                t = r.choice(self.COMMON9)
            elif m < 0.9 or not unknown:
                t = r.choice(pool)
                if not unknown:
                    while kinds[str(t)][1] == "Unknown":
                        t = r.choice(pool)
            else:
                t = r.choice([601, 999, 5000, 32000, 32767])
            kind = kinds.get(str(t), ["", "Unknown"])[1]
            if not unknown and kind == "Unknown":
                continue
            f = {"t": t, "kind": kind, "len": self.width(kind, proto), "ent": False, "pen": []}
            if proto == "ipfix" and enterprise and r.random() < 0.12:
                f["ent"] = True
                f["pen"] = b32(r.randrange(1, 2 ** 32))
                f["kind"] = "Vec"
                f["len"] = r.choice([1, 2, 4, 8, 65535, 6])
            out.append(f)
        if not out:
            out.append({"t": 1, "kind": "UnsignedDataNumber", "len": 4, "ent": False, "pen": []})
        return out

    # ------------------------------------------------------------------ V5 / V7
    def fixed(self, ver, count, proto_iter=None):
        r = self.r
        rec = 48 if ver == 5 else 52
        hdr = b16(ver) + b16(count) + self.rbytes(4) + self.rbytes(4) + self.rbytes(4) + self.rbytes(4) + self.rbytes(4)
        body = []
        for i in range(count):
            # per-field distinct contents: every byte of the record differs from its neighbours
            base = r.randrange(256)
            rb = [(base + 7 * j + 3 * i) % 256 for j in range(rec)] if r.random() < 0.5 else [r.randrange(256) for _ in range(rec)]
            if proto_iter is not None:
                rb[38] = next(proto_iter) % 256
            body += rb
        return hdr + body

    # ------------------------------------------------------------------ V9
    def v9_hdr(self, count):
        return b16(9) + b16(count) + self.rbytes(4) + self.rbytes(4) + self.rbytes(4) + self.rbytes(4)

    @staticmethod
    def set_(id_, body):
        return b16(id_) + b16(len(body) + 4) + body

    def v9_tmpl_rec(self, tid, fs):
        out = b16(tid) + b16(len(fs))
        for f in fs:
            out += b16(f["t"]) + b16(f["len"])
        return out

    def v9_otmpl_rec(self, tid, scope, opts):
        out = b16(tid) + b16(4 * len(scope)) + b16(4 * len(opts))
        for f in scope + opts:
            out += b16(f["t"]) + b16(f["len"])
        return out

    def record(self, fs, proto):
        out = []
        for f in fs:
            n = f["len"]
            if proto == "ipfix" and n == 65535:
                ln = self.r.choice([0, 1, 2, 5, 17, 40, 254, 255, 300]) if self.r.random() < 0.8 else self.r.randrange(0, 400)
                v = self.value(f["kind"], ln)
                if ln >= 255 or self.r.random() < 0.2:
                    out += [255] + b16(ln) + v
                else:
                    out += [ln] + v
            else:
                out += self.value(f["kind"], n)
        return out

    def data_set(self, tid, fs, proto, nrec, pad):
        body = []
        for _ in range(nrec):
            body += self.record(fs, proto)
        return self.set_(tid, body + [0] * pad)

    def minrec(self, fs):
        return sum(1 if f["len"] == 65535 else f["len"] for f in fs)

    # ------------------------------------------------------------------ IPFIX
    def ix_spec(self, f):
        if f["ent"]:
            return b16(f["t"] + 32768) + b16(f["len"]) + f["pen"]
        return b16(f["t"]) + b16(f["len"])

    def ix_tmpl_rec(self, tid, fs):
        out = b16(tid) + b16(len(fs))
        for f in fs:
            out += self.ix_spec(f)
        return out

    def ix_otmpl_rec(self, tid, fs, scope):
        out = b16(tid) + b16(len(fs)) + b16(scope)
        for f in fs:
            out += self.ix_spec(f)
        return out

    def ix_msg(self, sets):
        body = [x for s in sets for x in s]
        return b16(10) + b16(16 + len(body)) + self.rbytes(4) + self.rbytes(4) + self.rbytes(4) + body


class Exporter:
    """A stateful RFC-shaped exporter for one protocol: remembers the templates it has sent."""

    def __init__(self, g, proto, ids=(256, 257, 258, 300, 1000)):
        self.g = g
        self.proto = proto
        self.ids = list(ids)
        self.tm = {}  # id -> ("data", fs) | ("opts", scope, opts) | ("opts", fs, scopecount)

    def new_def(self, tid, kind=None, unknown=True, single_ipfix_record=True):
        g, r = self.g, self.g.r
        kind = kind or ("data" if r.random() < 0.75 else "opts")
        if kind == "data":
            fs = g.fields(self.proto, r.choice([1, 2, 3, 4, 6, 9]), unknown=unknown)
            if self.proto == "ipfix" and all(f["len"] == 0 for f in fs):
                fs[0]["len"] = 4 if fs[0]["kind"] not in ("String", "Vec", "Unknown") else 3
            self.tm[tid] = ("data", fs)
        elif self.proto == "v9":
            scope = [{"t": r.randrange(1, 6), "kind": "Scope", "len": r.choice([1, 2, 4, 8]), "ent": False, "pen": []}
                     for _ in range(r.choice([1, 1, 2]))]
            opts = g.fields("v9", r.choice([1, 2, 3]), unknown=unknown)
            for f in opts:
                if f["len"] == 0:
                    f["len"] = 2
            self.tm[tid] = ("opts", scope, opts)
        else:
            fs = g.fields("ipfix", r.choice([2, 3, 4]), unknown=unknown)
            if all(f["len"] == 0 for f in fs):
                fs[0]["len"] = 3
            self.tm[tid] = ("opts", fs, r.randrange(1, len(fs) + 1))
        return self.tm[tid]

    def tmpl_set(self, tids):
        """one template set holding the records of tids (all of the same kind)"""
        g = self.g
        kind = self.tm[tids[0]][0]
        recs = []
        for t in tids:
            d = self.tm[t]
            if self.proto == "v9":
                recs += g.v9_tmpl_rec(t, d[1]) if d[0] == "data" else g.v9_otmpl_rec(t, d[1], d[2])
            else:
                recs += g.ix_tmpl_rec(t, d[1]) if d[0] == "data" else g.ix_otmpl_rec(t, d[1], d[2])
        pad = [0] * g.r.choice([0, 0, 0, 1, 2, 3])
        if self.proto == "v9":
            return g.set_(0 if kind == "data" else 1, recs + pad)
        return g.set_(2 if kind == "data" else 3, recs + pad)

    def data(self, tid, nrec=None):
        g, r = self.g, self.g.r
        d = self.tm[tid]
        nrec = nrec if nrec is not None else r.choice([1, 1, 2, 3, 5, 9])
        if d[0] == "data":
            fs = d[1]
        elif self.proto == "v9":
            fs = d[1] + d[2]
        else:
            fs = d[1]
        m = g.minrec(fs)
        pad = r.randrange(0, min(4, m)) if m > 0 else 0
        return g.data_set(tid, fs, self.proto, nrec, pad)

    def packet(self, sets):
        g = self.g
        if self.proto == "v9":
            return g.v9_hdr(len(sets)) + [x for s in sets for x in s]
        return g.ix_msg(sets)


def ops_reset(parsers=("A",), allowed=None):
    out = [{"op": "reset"}]
    for p in parsers:
        out.append({"op": "new", "p": p, "allowed": allowed if allowed is not None else ALL})
    return out


def call(p, buf):
    return {"op": "call", "p": p, "buf": list(buf)}


# ---------------------------------------------------------------------- drivers
def conformant_session(g, npk=8, unknown=True, multi_tmpl=True, parsers=("A", "B"), chain=True):
    """RFC-shaped interleaved V5/V7/V9/IPFIX streams, redefinitions, several parsers, random cuts."""
    r = g.r
    ops = ops_reset(parsers)
    ex = {p: {"v9": Exporter(g, "v9"), "ipfix": Exporter(g, "ipfix")} for p in parsers}
    pend = {p: [] for p in parsers}
    for _ in range(npk):
        p = r.choice(parsers)
        m = r.random()
        if m < 0.12:
            pk = g.fixed(5, r.choice([0, 1, 2, 3, 30]))
        elif m < 0.2:
            pk = g.fixed(7, r.choice([0, 1, 2, 5]))
        else:
            proto = "v9" if r.random() < 0.5 else "ipfix"
            e = ex[p][proto]
            sets = []
            for _ in range(r.choice([1, 1, 2, 3, 4])):
                known = list(e.tm.keys())
                mm = r.random()
                if mm < 0.4 or not known:
                    n = r.choice([1, 1, 1, 2, 3]) if multi_tmpl else 1
                    tids = r.sample(e.ids, min(n, len(e.ids)))
                    kind = "data" if r.random() < 0.75 else "opts"
                    for t in tids:
                        e.new_def(t, kind=kind, unknown=unknown)
                    sets.append(e.tmpl_set(tids))
                else:
                    sets.append(e.data(r.choice(known)))
            pk = e.packet(sets)
        pend[p].append(pk)
        # flush: one call per packet, or several packets chained into one buffer
        if not chain or r.random() < 0.6 or len(pend[p]) >= 3:
            ops.append(call(p, [x for k in pend[p] for x in k]))
            pend[p] = []
    for p in parsers:
        if pend[p]:
            ops.append(call(p, [x for k in pend[p] for x in k]))
    return ops


def protocols_session(g):
    """every one of the 256 protocol numbers, in V5 and V7 records"""
    it5 = iter(range(256))
    it7 = iter(range(256))
    ops = ops_reset(("A",))
    for _ in range(8):
        ops.append(call("A", g.fixed(5, 32, it5)))
    for _ in range(8):
        ops.append(call("A", g.fixed(7, 32, it7)))
    return ops


def mutate_bytes(g, buf):
    r = g.r
    b = list(buf)
    if not b:
        return [r.randrange(256)]
    for _ in range(r.choice([1, 1, 2, 3])):
        m = r.random()
        if not b:
            b = [r.randrange(256)]
        i = r.randrange(len(b))
        if m < 0.3:
            b[i] = r.randrange(256)
        elif m < 0.5 and len(b) >= 2:
            i = r.randrange(len(b) - 1)
            v = r.choice([0, 1, 2, 3, 4, 5, 65535, 65534, len(b), len(b) - i, max(0, len(b) - i - 1), len(b) - i + 1])
            b[i:i + 2] = b16(v & 0xFFFF)
        elif m < 0.62:
            del b[i:i + r.choice([1, 2, 4, 8])]
        elif m < 0.72:
            b[i:i] = [r.randrange(256) for _ in range(r.choice([1, 2, 4]))]
        elif m < 0.82:
            b = b[:i]
        elif m < 0.9:
            b += [r.randrange(256) for _ in range(r.choice([1, 2, 3, 7, 20]))]
        else:
            b[0:2] = b16(r.choice([5, 7, 9, 10, 9, 10, 0, 1, 8, 11, 65535]))
    return b


def mutate_session(g, npk=10):
    """templates first (attacker-chosen cache), then mutated packets; random allowed sets"""
    r = g.r
    allowed = ALL if r.random() < 0.7 else sorted(set(r.sample([5, 7, 9, 10, 0, 1, 8, 11, 65535], r.randrange(0, 6))))
    ops = ops_reset(("A", "B"), allowed)
    base = conformant_session(g, npk=npk, parsers=("A", "B"))
    for o in base:
        if o["op"] != "call":
            continue
        if r.random() < 0.65:
            ops.append(call(o["p"], mutate_bytes(g, o["buf"])))
        else:
            ops.append(o)
    return ops


def hostile_templates_session(g):
    """zero-length fields, zero counts, huge counts, then data (C01/C15 history-dependent inputs)"""
    r = g.r
    ops = ops_reset(("A",))
    shapes = []
    for tid in (256, 257, 258, 259):
        n = r.choice([0, 1, 2, 5, 50])
        fs = [(r.choice([1, 4, 8, 21, 56, 94, 999, 27]), r.choice([0, 0, 1, 4, 65535, 3, 16])) for _ in range(n)]
        shapes.append((tid, fs))
    v9t = []
    for tid, fs in shapes:
        v9t += b16(tid) + b16(len(fs)) + [x for t, l in fs for x in b16(t) + b16(l)]
    ops.append(call("A", g.v9_hdr(1) + g.set_(0, v9t)))
    # options templates with zero lengths
    ot = b16(260) + b16(4) + b16(4) + b16(1) + b16(r.choice([0, 4])) + b16(r.choice([1, 94])) + b16(r.choice([0, 2]))
    ops.append(call("A", g.v9_hdr(1) + g.set_(1, ot)))
    for tid, fs in shapes:
        ixt = b16(tid) + b16(len(fs)) + [x for t, l in fs for x in b16(t) + b16(l)]
        ops.append(call("A", g.ix_msg([g.set_(2, ixt)])))
    for tid in (256, 257, 258, 259, 260):
        body = [r.randrange(256) for _ in range(r.choice([0, 1, 4, 16, 64, 300]))]
        ops.append(call("A", g.v9_hdr(1) + g.set_(tid, body)))
        ops.append(call("A", g.ix_msg([g.set_(tid, body)])))
    return ops


def truncate_session(g):
    """every proper prefix of a valid packet, alone and after valid packets"""
    r = g.r
    ops = []
    e9 = Exporter(g, "v9")
    e10 = Exporter(g, "ipfix")
    for e in (e9, e10):
        e.new_def(256, kind="data", unknown=False)
    pk9t = e9.packet([e9.tmpl_set([256])])
    pk10t = e10.packet([e10.tmpl_set([256])])
    pk9 = e9.packet([e9.data(256, 2)])
    pk10 = e10.packet([e10.data(256, 2)])
    pk9b = e9.packet([e9.tmpl_set([256]), e9.data(256, 1)])
    pk10b = e10.packet([e10.tmpl_set([256]), e10.data(256, 1)])
    v5 = g.fixed(5, 2)
    v7 = g.fixed(7, 1)
    cands = [("v5", v5), ("v7", v7), ("v9", pk9), ("ipfix", pk10), ("v9", pk9b), ("ipfix", pk10b)]
    for name, pk in cands:
        prefix_sets = [[], [v5], [pk10t + pk10]]
        pre = r.choice(prefix_sets)
        cuts = list(range(1, len(pk)))
        if len(cuts) > 40:
            cuts = sorted(set(r.sample(cuts, 30) + [1, 2, 3, 15, 16, 17, 19, 20, 21, 23, 24, 25, len(pk) - 1]))
            cuts = [c for c in cuts if 0 < c < len(pk)]
        for c in cuts:
            ops += ops_reset(("A",))
            ops.append(call("A", pk9t))
            ops.append(call("A", pk10t))
            ops.append(call("A", [x for k in pre for x in k] + pk[:c]))
    return ops
