"""Orchestration: build the harness against /repo's working tree, run drivers, validate the traces
with TLC against spec/Trace.tla, classify findings against known_findings.json, write evidence.

No decision about a property is taken here: findings and their signatures are computed by TLC
evaluating the specification; this file only moves files, matches signatures and counts.
"""
import concurrent.futures as cf
import hashlib
import json
import os
import re
import shutil
import subprocess
import sys
import time

VERIF = os.path.dirname(os.path.dirname(os.path.abspath(__file__)))
REPO = os.environ.get("VERIF_REPO", "/repo")
OUT = os.environ.get("VERIF_OUT", os.path.join(VERIF, "out"))
SPEC = os.path.join(VERIF, "spec")
HARNESS = os.path.join(VERIF, "harness")
sys.path.insert(0, os.path.join(VERIF, "lib"))

NCPU = os.cpu_count() or 4


class ToolError(Exception):
    pass


def log(*a):
    print("[verif]", *a, file=sys.stderr, flush=True)


def sh(cmd, **kw):
    return subprocess.run(cmd, **kw)


# ----------------------------------------------------------------------------- hashing / cache
def _hash_files(paths):
    h = hashlib.sha256()
    for p in sorted(paths):
        try:
            with open(p, "rb") as f:
                h.update(p.encode())
                h.update(f.read())
        except OSError:
            pass
    return h.hexdigest()[:16]


def _walk(root, exts):
    out = []
    for d, dirs, files in os.walk(root):
        dirs[:] = [x for x in dirs if x not in ("target", ".git", "out", "__pycache__", "fuzz", "benches")]
        for f in files:
            if any(f.endswith(e) for e in exts):
                out.append(os.path.join(d, f))
    return out


def tree_hash():
    files = _walk(os.path.join(REPO, "src"), (".rs",)) + [os.path.join(REPO, "Cargo.toml")]
    files += _walk(SPEC, (".tla", ".cfg")) + _walk(os.path.join(HARNESS, "src"), (".rs",))
    files += _walk(os.path.join(VERIF, "lib"), (".py",)) + [os.path.join(VERIF, "known_findings.json")]
    files += _walk(os.path.join(VERIF, "corpus"), (".ndjson",))
    return _hash_files(files)


# ----------------------------------------------------------------------------- build
_built = {}


def build_harness(puf=True, release=False):
    """cargo build of the harness against /repo's current working tree; returns the binary path"""
    key = (puf, release)
    if key in _built:
        return _built[key]
    tdir = os.path.join(HARNESS, "target" if puf else "target-nopuf")
    cmd = ["cargo", "build", "--offline"]
    if REPO != "/repo":
        # evaluate a scratch copy of the repository (seeded changes) without touching /repo
        tdir = os.path.join(OUT, "alt-target", hashlib.sha256(REPO.encode()).hexdigest()[:8] + ("" if puf else "-nopuf"))
        cmd += ["--config", 'paths=["%s"]' % REPO]
    cmd += ["--target-dir", tdir]
    if release:
        cmd.append("--release")
    if not puf:
        cmd.append("--no-default-features")
    env = dict(os.environ, CARGO_NET_OFFLINE="true")
    t = time.time()
    r = sh(cmd, cwd=HARNESS, env=env, stdout=subprocess.PIPE, stderr=subprocess.STDOUT, text=True)
    if r.returncode != 0:
        _built[key] = None
        log("cargo build failed (puf=%s):\n%s" % (puf, r.stdout[-3000:]))
        return None
    log("harness built (puf=%s release=%s) in %.1fs" % (puf, release, time.time() - t))
    b = os.path.join(tdir, "release" if release else "debug", "nfharness")
    _built[key] = b
    return b


def kinds(binary):
    r = sh([binary, "kinds"], stdout=subprocess.PIPE, text=True)
    if r.returncode != 0:
        raise ToolError("nfharness kinds failed")
    return json.loads(r.stdout)


# ----------------------------------------------------------------------------- harness / TLC
def write_ops(path, ops):
    with open(path, "w") as f:
        for o in ops:
            f.write(json.dumps(o, separators=(",", ":")) + "\n")


def run_harness(binary, ops_path, trace_path, post="export,common,json", timeout_ms=20000, extra=()):
    cmd = [binary, "run", ops_path, trace_path, "--post", post, "--timeout-ms", str(timeout_ms)] + list(extra)
    r = sh(cmd, stdout=subprocess.PIPE, stderr=subprocess.PIPE, text=True)
    if r.returncode != 0:
        raise ToolError("harness failed: " + r.stderr[-2000:])
    return r.stderr.strip()


FIND_RE = re.compile(r'^"FINDING~~(\d+)~~(.*)"$')
COV_RE = re.compile(r'^"COV~~(\d+)~~(T|F)~~(T|F)~~([^~]*)~~(\d+)(?:~~(.*))?"$')
ROUND_RE = re.compile(r'^"ROUND~~(\d+)~~(\w+)~~(T|F)"$')
STAT_RE = re.compile(r'^(\d+) states generated, (\d+) distinct states found')
STR_RE = re.compile(r'"((?:[^"\\]|\\.)*)"')


def tlc_trace(trace_path, workdir, cfg="Trace.cfg", module="Trace.tla", timeout=1800, xmx="3g", env_extra=None):
    os.makedirs(workdir, exist_ok=True)
    jt = os.path.join(workdir, "jt")
    os.makedirs(jt, exist_ok=True)
    env = dict(os.environ, TRACE=trace_path,
               JAVA_TOOL_OPTIONS="-Xss1g -Xmx%s -Dtlc2.tool.queue.IStateQueue=StateDeque -Djava.io.tmpdir=%s" % (xmx, jt))
    if env_extra:
        env.update(env_extra)
    cmd = ["timeout", str(timeout), "tlc", "-workers", "1", "-metadir", os.path.join(workdir, "md"), "-cleanup",
           "-noGenerateSpecTE", "-config", cfg, module]
    r = sh(cmd, cwd=SPEC, env=env, stdout=subprocess.PIPE, stderr=subprocess.STDOUT, text=True)
    shutil.rmtree(jt, ignore_errors=True)
    shutil.rmtree(os.path.join(workdir, "md"), ignore_errors=True)
    findings, cov, states = [], [], 0
    rounds = {}
    ok = False
    for line in r.stdout.splitlines():
        m = ROUND_RE.match(line)
        if m:
            e = rounds.setdefault(m.group(2), [0, 0])
            e[1] += 1
            e[0] += m.group(3) == "T"
            continue
        m = FIND_RE.match(line)
        if m:
            findings.append({"line": int(m.group(1)), "sig": m.group(2).split("~~")})
            continue
        m = COV_RE.match(line)
        if m:
            cov.append({"line": int(m.group(1)), "matched": m.group(2) == "T", "conf": m.group(3) == "T",
                        "dev": [d for d in m.group(4).split(",") if d], "nout": int(m.group(5)),
                        "shape": m.group(6) or ""})
            continue
        m = STAT_RE.match(line)
        if m:
            states = int(m.group(2))
        if "Model checking completed. No error has been found." in line:
            ok = True
    if not ok:
        raise ToolError("TLC trace validation did not complete on %s:\n%s" % (trace_path, r.stdout[-3000:]))
    return {"findings": findings, "cov": cov, "states": states, "rounds": rounds}


def split_trace(trace_path, nshards, workdir):
    """cut a trace into shards at `reset` events (sessions are independent)"""
    sessions, cur = [], []
    with open(trace_path) as f:
        for line in f:
            if line.startswith('{"e":"reset"') and cur:
                sessions.append(cur)
                cur = []
            cur.append(line)
    if cur:
        sessions.append(cur)
    total = sum(sum(len(l) for l in s) for s in sessions)
    target = total / max(1, nshards)
    shards, cur, size = [], [], 0
    for s in sessions:
        cur.append(s)
        size += sum(len(l) for l in s)
        if size >= target and len(shards) < nshards - 1:
            shards.append(cur)
            cur, size = [], 0
    if cur:
        shards.append(cur)
    paths = []
    for i, sh_ in enumerate(shards):
        p = os.path.join(workdir, "shard-%d.ndjson" % i)
        with open(p, "w") as f:
            for s in sh_:
                f.writelines(s)
        paths.append(p)
    return paths


def validate(trace_path, workdir, nshards=None, env_extra=None):
    """TLC trace validation, sharded; returns findings with the session ops that reproduce them"""
    nshards = nshards or max(1, min(NCPU - 2, 10))
    size = os.path.getsize(trace_path)
    if size < 400_000:
        nshards = 1
    elif size < 3_000_000:
        nshards = min(nshards, 4)
    paths = split_trace(trace_path, nshards, workdir)
    res = []
    with cf.ThreadPoolExecutor(max_workers=len(paths)) as ex:
        futs = [ex.submit(tlc_trace, p, os.path.join(workdir, "tlc-%d" % i), env_extra=env_extra) for i, p in enumerate(paths)]
        for p, fu in zip(paths, futs):
            r = fu.result()
            r["shard"] = p
            res.append(r)
    findings, cov, states, events = [], [], 0, 0
    rounds = {}
    for r in res:
        for k, (h, n) in r.get("rounds", {}).items():
            e = rounds.setdefault(k, [0, 0])
            e[0] += h
            e[1] += n
        with open(r["shard"]) as f:
            lines = f.readlines()
        events += len(lines)
        states += r["states"]
        cov += r["cov"]
        for fd in r["findings"]:
            fd["replay_ops"] = session_ops(lines, fd["line"])
            findings.append(fd)
    return {"findings": findings, "cov": cov, "states": states, "events": events, "rounds": rounds}


def session_ops(lines, upto):
    """reconstruct the operation script of the session containing event `upto` (1-based), up to it"""
    start = 0
    for i in range(upto - 1, -1, -1):
        if lines[i].startswith('{"e":"reset"'):
            start = i
            break
    ops = []
    for i in range(start, min(upto, len(lines))):
        ev = json.loads(lines[i])
        e = ev.get("e")
        if e == "reset":
            ops.append({"op": "reset"})
        elif e == "new":
            ops.append({"op": "new", "p": ev["p"], "allowed": ev["allowed"]})
        elif e == "allow":
            ops.append({"op": "allow", "p": ev["p"], "allowed": ev["allowed"]})
        elif e == "call":
            ops.append({"op": "call", "p": ev["p"], "buf": ev["buf"]})
        elif e == "flat":
            ops.append({"op": "flat", "p": ev["p"], "buf": ev["buf"]})
        elif e == "struct":
            ops.append({"op": "struct", "v": ev["v"], "hdr": ev["item"]["hdr"], "recs": ev["item"]["recs"]})
        elif e in ("parsed", "ret", "retbig", "toolcrash", "panic", "crash", "hang", "flatret"):
            continue
        elif e in ("round", "note") and i < upto - 1 or e == "round":
            o = dict(ev)
            o["op"] = e
            del o["e"]
            ops.append(o)
    return ops


# ----------------------------------------------------------------------------- known findings
def load_known():
    p = os.path.join(VERIF, "known_findings.json")
    if not os.path.exists(p):
        return []
    with open(p) as f:
        return json.load(f)["entries"]


def sig_matches(entry_sig, sig):
    if len(entry_sig) != len(sig):
        return False
    for pat, s in zip(entry_sig, sig):
        if pat == "*":
            continue
        if s not in pat.split("|"):
            return False
    return True


def classify(prop, findings, known):
    """-> (known_hits: {entry id: [findings]}, violations: [findings])"""
    hits, viol = {}, []
    for fd in findings:
        if fd["sig"][0] != prop:
            continue
        e = next((k for k in known if k.get("status") == "known" and prop in k["properties"]
                  and sig_matches(k["signature"], fd["sig"])), None)
        if e is not None:
            hits.setdefault(e["id"], []).append(fd)
        else:
            viol.append(fd)
    return hits, viol


# ----------------------------------------------------------------------------- bounded models
MC_STAT = re.compile(r'^(\d+) states generated, (\d+) distinct states found, (\d+) states left')


def tlc_model(module, cfg, workdir, workers=8, timeout=1500, xmx="8g", want_vectors=True, extra_args=()):
    """exhaustive TLC run of a bounded model; returns states, transitions, vectors (op scripts), coverage"""
    os.makedirs(workdir, exist_ok=True)
    jt = os.path.join(workdir, "jt")
    os.makedirs(jt, exist_ok=True)
    env = dict(os.environ, JAVA_TOOL_OPTIONS="-Xss1g -Xmx%s -Djava.io.tmpdir=%s" % (xmx, jt))
    cmd = ["timeout", str(timeout), "tlc", "-workers", str(workers)] + list(extra_args) + ["-metadir", os.path.join(workdir, "md"), "-cleanup",
           "-noGenerateSpecTE", "-config", cfg, module]
    simulate = "-simulate" in extra_args
    t = time.time()
    vecf = os.path.join(workdir, "vectors.txt")
    with open(os.path.join(workdir, "tlc.out"), "w") as outf:
        r = subprocess.Popen(cmd, cwd=SPEC, env=env, stdout=subprocess.PIPE, stderr=subprocess.STDOUT, text=True)
        nvec = 0
        ok = False
        gen = dist = 0
        errors = []
        with open(vecf, "w") as vf_:
            for line in r.stdout:
                if line.startswith('"VEC~~'):
                    nvec += 1
                    if want_vectors:
                        vf_.write(line)
                    continue
                outf.write(line)
                m = MC_STAT.match(line)
                if m:
                    gen, dist = int(m.group(1)), int(m.group(2))
                if "Model checking completed. No error has been found." in line:
                    ok = True
                m2 = re.match(r"^The number of states generated: (\d+)", line)
                if simulate and m2:
                    gen = dist = int(m2.group(1))
                    ok = True
                if line.startswith("Error:"):
                    ok = False
                    errors.append(line.strip())
        r.wait()
    shutil.rmtree(jt, ignore_errors=True)
    shutil.rmtree(os.path.join(workdir, "md"), ignore_errors=True)
    if errors:
        ok = False
    return {"ok": ok, "states": dist, "transitions": gen, "nvec": nvec, "vectors_file": vecf, "errors": errors,
            "wall_s": round(time.time() - t, 1), "module": module, "cfg": cfg}


def read_vectors(path, limit=None, seed=1):
    """vector lines -> list of op scripts (each a list of ops, prefixed by reset/new by the caller)"""
    import random
    vecs = []
    with open(path) as f:
        for line in f:
            try:
                s = json.loads(line)
                vecs.append(json.loads(s.split("~~", 1)[1]))
            except Exception:
                continue
    if limit == -1:
        # simulation: keep only histories that are not a proper prefix of another emitted history
        keys = sorted({json.dumps(v, sort_keys=True)[:-1] for v in vecs})
        keep = []
        for i, k in enumerate(keys):
            if i + 1 < len(keys) and keys[i + 1].startswith(k + ","):
                continue
            keep.append(json.loads(k + "]"))
        return keep
    if limit is not None and len(vecs) > limit:
        # keep the core first: single-parser histories under the default allowed set, shortest first;
        # fill the rest of the budget with a seeded random sample of the cross-parser / filtered ones
        rnd = random.Random(seed)

        def rank(v):
            return (len({o["p"] for o in v}) > 1, sum(1 for o in v if o["op"] == "allow"))
        core = [v for v in vecs if rank(v) == (False, 0)]
        rest = [v for v in vecs if rank(v) != (False, 0)]
        rnd.shuffle(rest)
        if len(core) > limit * 3 // 4:
            rnd.shuffle(core)
            core.sort(key=lambda v: sum(1 for o in v if o["op"] == "call"))     # every short history, then a sample of the longest
            core = core[:limit * 3 // 4]
        vecs = core + rest[:max(0, limit - len(core))]
    return vecs
