#!/usr/bin/env python3
"""regenerates section 13 of DESIGN.md from seeded/*/meta.json"""
import glob, json, os, re
rows = []
for d in sorted(glob.glob("/verif/seeded/*/meta.json")):
    m = json.load(open(d))
    name = os.path.basename(os.path.dirname(d))
    summ = (m.get("summary") or "").replace("|", "/").replace("\n", " ")
    needs = (m.get("needs") or "").replace("|", "/").replace("\n", " ")
    if len(summ) > 260: summ = summ[:257] + "..."
    if len(needs) > 260: needs = needs[:257] + "..."
    c = m.get("confirmed", {})
    conf = "yes" if c.get("demo_clean_pass") and c.get("demo_patched_fail") and "45 passed" in c.get("suite_patched", "") else "NO"
    det = ", ".join(m.get("detected_by", [])) or "-"
    tgt = "yes" if m.get("target_detected") else "**no**"
    rows.append("| %s | %s | %s | %s | %s | %s |" % (name, summ, needs, conf, det, tgt))
n = len(rows); hit = sum(1 for r in rows if r.endswith("| yes |")); anyhit = sum(1 for r in rows if "| - | **no** |" not in r)
txt = """

--------------------------------------------------------------------------------------------------
## 13. Sensitivity: seeded changes and which checks catch them

The changes below were written by fresh sub-agents that were given only the text of one property and a scratch worktree of
`/repo` (nothing from `/verif`). Each was confirmed in a scratch worktree (`lib/seedtest.py`): it applies to `/repo`'s
HEAD, the 45 tests still pass with it, its demonstration passes without it and fails with it. Then every quick check was
run against the changed tree (harness built against the scratch worktree through cargo's `paths` override; `/repo` itself
is never touched) and the checks that exited 1 with a `VIOLATION` line were recorded. Each change is kept under
`seeded/<property>-<n>/` (`patch.diff`, `demo.rs`, `meta.json` with the full per-check outcome).

%d changes; %d are reported by the check of the property they were written against, %d by at least one check.

| change | what it does | what it needs to manifest | confirmed | checks that report a VIOLATION | own property's check |
|---|---|---|---|---|---|
%s
""" % (n, hit, anyhit, "\n".join(rows))
p = "/verif/DESIGN.md"
s = open(p).read()
a = s.find("\n\n--------------------------------------------------------------------------------------------------\n## 13. Sensitivity")
if a >= 0:
    b = s.find("\n\n--------------------------------------------------------------------------------------------------\n## 14.", a)
    s = s[:a] + txt.rstrip("\n") + s[b:]
else:
    b = s.find("\n\n--------------------------------------------------------------------------------------------------\n## 14.")
    s = s[:b] + txt.rstrip("\n") + s[b:]
open(p, "w").write(s)
print(n, hit, anyhit)
