#!/usr/bin/env python3
"""regenerates section 13 of DESIGN.md from seeded/*/meta.json"""
import glob, json, os, re
rows = []
for d in sorted(glob.glob("/verif/seeded/*/meta.json")):
    m = json.load(open(d))
    name = os.path.basename(os.path.dirname(d))
    summ = (m.get("summary") or "").replace("|", "/").replace("\n", " ")
    needs = (m.get("needs") or "").replace("|", "/").replace("\n", " ")
    if len(summ) > 260: summ = summ[:257] + "..."
    if len(needs) > 260: needs = needs[:257] + "..."
    c = m.get("confirmed", {})
    conf = "yes" if c.get("demo_clean_pass") and c.get("demo_patched_fail") and "45 passed" in c.get("suite_patched", "") else "NO"
    det = ", ".join(m.get("detected_by", [])) or "-"
    tgt = "yes" if m.get("target_detected") else "**no**"
    rows.append("| %s | %s | %s | %s | %s | %s |" % (name, summ, needs, conf, det, tgt))
n = len(rows); hit = sum(1 for r in rows if r.endswith("| yes |")); anyhit = sum(1 for r in rows if "| - | **no** |" not in r)
txt = """

--------------------------------------------------------------------------------------------------
## 13. Sensitivity: seeded changes and which checks catch them

The changes below were written by fresh sub-agents that were given only the text of one property and a scratch worktree of
`/repo` (nothing from `/verif`). Each was confirmed in a scratch worktree (`lib/seedtest.py`): it applies to `/repo`'s
HEAD, the 45 tests still pass with it, its demonstration passes without it and fails with it. Then every quick check was
run against the changed tree (harness built against the scratch worktree through cargo's `paths` override; `/repo` itself
is never touched) and the checks that exited 1 with a `VIOLATION` line were recorded. At the end of batch 7 the
check of each change's own property was run once more against it with the machinery of that time (every change of batches 1-7; four of them - C07-7, C07-8, C11-8, C12-7 - were
re-run in the following session, with the strengthenings made for them); for the other
checks the table shows the outcome of the last full evaluation of that change (batches 5-8 were evaluated against their own
property's check only). Batch 8 (34 changes: the two highest numbers of every property) was evaluated once while it was being
worked on; the 10 it missed at first were evaluated again after the strengthenings listed below. Each change is kept under
`seeded/<property>-<n>/` (`patch.diff`, `demo.rs`, `meta.json` with the full per-check outcome).

%d changes; %d are reported by the check of the property they were written against, %d by at least one check.

The table shows the final state. The first evaluation of each batch missed some changes; what each miss taught and what
was strengthened (never by loosening a check):

| missed at first | why | strengthening |
|---|---|---|
| C02-1 (V9 set with length < 4 advances the cursor by `length`) | the framing alphabet had such a set only in the middle of a packet, where both readings end in an error | `PktV9_ShortLast`, `PktIx_ShortSet` in `MC_Framing` |
| C06-2 (a rejected IPFIX template record still evicts the other kind) | no rejected template record in any driver | three rejected-record packets in `MC_Cache` (token: `Nop`) |
| C01-2 (negative 3-byte signed value panics on re-export) | field 434 is 1 of 600 types | kind-uniform choice of field types (every value kind gets its share) |
| C11-2, C11-1 (V9 length rounded up to 4; trailing packet < 24 bytes dropped) | the chain round demanded that the *chained* parser had consumed everything; no header-only packets in sequences | the one-packet-per-call parser certifies the antecedent; header-only IPFIX / V9 packets in the sequences |
| C03-1 (cut V7 accepted with fewer records) | reported under C02/C14 only | C03's last sentence attributed in `Unexplained` |
| C09-2, C16-4 (trailing NULs trimmed) | V9 has two string types and random strings rarely end in NUL | NUL-padded text values |
| C09-1, C10-4 (options lengths recomputed; padding zeroed) | accepted-garbage shapes were not fed to C09/C10 | `hostile` driver feeds C09/C10; options templates with lengths that are not multiples of 4 |
| C09-3, C04-3 (re-sent options template dropped from the result; refresh shortcut skips new records) | templates were never re-sent verbatim; export not judged when the structure was unexplained | template refresh (alone, and mixed with a new definition used in the same packet); `ExportBasic` judges the export from the observed accounting; `MC_Cache` vectors feed C04/C05/C09/C10 |
| C04-4 (V9 type >= 0x8000 looked up by its low 15 bits) | the type assignment is an input of C04 | types >= 0x8000 in the drivers; `V9HighTypeFindings` (no registry knows such a type: it must be opaque) |
| C10-3 (redefined IPFIX template keeps the old definition) | unexplained structure => only the cache envelope was applied | on a conformant buffer the caches must equal the reference's even when the structure is unexplained |
| C13-3 (flat view empty when one packet is an error) | `flat` was only used on clean buffers | `flat` on mutated buffers |
| C15-2 (options-template cache cloned per template flowset) | no large cache in the scale driver | large-cache shapes (1 200 templates, then 1 200 small template sets) |
| C16-1 (cache bounded at 1 024 with arbitrary eviction) | at most 16 template ids per history | `many_templates_session` (1 100 ids, twin parsers, 25 ids queried) |
| C07-4 (error arm drops the packets decoded before it) | reported under C02/C03/C12/C14 only | C07's "earlier packets are still reported" attributed |
| C11-3 (templates rolled back when the buffer ends in an error) | chain rounds demanded that no packet errs; reported under C06/C14 only | the last packet of a chain may be one that errs alone (results and caches must still agree) |
| C15-3, C15-4 (record size wraps past 65 535 and the template is cloned per byte; V7 arm copies the remainder per packet) | the scale driver had neither shape | a 2 000-field template whose lengths sum to 65 537 followed by 28 KB of data; a datagram packed with header-only V7 packets |
| C16-3 (duplicate ids in one template flowset reordered through a HashMap) | template sets never repeated an id | `dup_templates_session`: 8 ids, two repeated, twin parsers |
| C14-3 (truncated IPFIX message leaks its complete template sets) - caught at first by C06 and C14 | - | C14's cache clause is attributed explicitly when the reference says the buffer ends in a cut V5/V7/IPFIX packet |
| C02-6 (V5 record count capped at the documented 30) | V5/V7 packets of the framing drivers never had more than 30 records | 31- and 33-record packets in the conformant, mutate and chained sequences |
| C09-6 (V9 export truncates a flowset to its length word; words < 4 are accepted on input) | the framing alphabet (which has such flowsets) was not fed to C09/C10 | `MC_Framing` vectors are judged for C09/C10 too |
| C16-6, C06 (thread-local memo of V9 record sizes shared by all parser instances) | parsers of one session ran in lockstep or one after the other | the calls of the chain-round parsers are merged in a random order (each keeps its own); a second one-packet-per-call twin |
| C11-5 (V9 flowset budget clamped through a failing u16 conversion when >= 256 KiB follow) | no buffer beyond one datagram | `longchain` driver: 300 KB buffers (whole, two halves, per packet) |
| C11-6 (V9 budget charged per template record) | the mutant breaks the one-packet-per-call parser as well, so its observations no longer certified the antecedent and the round switched itself off | the antecedent of chain rounds is certified by the *reference run* of each one-packet call (`RefOne`), never by the observed parser; template sets with several templates in chained sequences; round antecedent coverage in the evidence |
| C07-5, C07-6 (unknown V9 id leaves a placeholder in the cache; unknown IPFIX set turns the message into an error) | reported under C06 / C05 only | C07's "caches are unchanged" and "an IPFIX message simply omits that set" attributed (`UnknownIds`, `c07b`) |
| C01-6 (empty IPFIX data set accepted, `chunks(0)` panics in the common view) | panics of re-export / common view were judged only on results the reference explains | judged on every returned value |
| C12-6 (unknown-version error carries the whole buffer instead of the unparsed bytes) | the payload of the error was projected but never compared | payload must be the unparsed bytes (with or without the version field) |
| C17-6 (feature off: a V9 data flowset under an unknown-field template fails the packet, later template flowsets are lost) | the builds were compared on known-only streams; in mixed streams the feature-off run adopted its own (wrong) caches | `TraceEq.tla` MIXED mode: on mixed streams both builds must hold the same templates after every call and return identical packets wherever no unknown field type is mentioned. This also exposed a genuine divergence on the pinned tree (IPFIX, known finding `KF-c17-ipfix-templates-after-unknown-field-set`) |
| C15-5 (`reserve_exact(1)` before every push: the result vector is reallocated once per chained packet) | the counting allocator charged a reallocation only with its growth, so the total stayed linear | `CostM`: the bytes reallocations may have had to copy (old size of every block passed to `realloc`) are bounded by 4 x allocated + 1 MiB (measured on the repaired tree: <= 1.0 x) |
| C03-8 (record length memoised per thread by the first V5/V7 packet decoded on it) | every driver happened to decode a V5 packet first on its worker thread | half of the sessions start on a fresh worker thread (`"fresh"` on `reset`), the others inherit the thread |
| C02-7 (V9 header count 0 read as "until the end of the buffer") | a packet's own header was not held against the number of flowsets reported for it | `Accounting`: a V9 packet has at most `count` flowsets; count-0 headers followed by flowset-shaped bytes in `hostile`; header-only packets in conformant streams |
| C16-6 again (found by 1 session in 100, lost when the generators changed) | detection depended on a lucky merge order | `lagged_twins_session`: the second parser runs 2-3 calls behind the first over a stream that redefines an id between two data packets |
| C03-7, C10-8 (protocol byte 255 / negative 3-byte value panic) - caught by C01 | a call or conversion that does not return was only C01's business | it is also reported under the decode / export / common / JSON property of the packet kinds involved |
| C07-7 (a "template awaited" memo that the options-template path never clears: the late template never makes the data decode) | no driver sent data ahead of its template and then the template | `late_template_session` (data, template, the same data bytes; V9/IPFIX x data/options) with round `late`: if the reference decodes the third call, so must the implementation (C07, last clause) |
| C07-8 (IPFIX set id 255, the lowest id looked up as data, treated as a template set) | no driver used id 255; the C07 attribution wanted the unknown set reported *as data* | id 255 unknown / defined / used in `hostile` (now also a C07 driver); any reported set carrying the id of a set the reference omits is C07's |
| C11-8 (an IPFIX message whose header equals the previous one's in the same call is dropped as a retransmission) | header fields were always random | twin header-only messages in chained sequences; export time / sequence / domain repeated now and then |
| C12-7 (sorted copy of the allowed set refreshed only when its size changes) | the set was only ever narrowed or widened | a member of the set is swapped for another number between two calls |
| C08-6 (thread-local export scratch keeps the surplus records of an over-full structure) | only in-domain structures were exported | structures with count != number of records exported in between (no verdict on them) |
| C17-8 (feature off: a template with an unknown field type is reported but not cached, so a superseded definition stays live) | every IPFIX cache difference between the two builds matched the coarse signature of the known finding KF-c17-ipfix-templates-after-unknown-field-set and was printed as `KNOWN-FINDING` | `CacheDiffWhy` in `TraceEq.tla`: only ids defined behind an undecodable set, for which the feature-off build holds what it held before the call or a definition it reported in it, are the known finding; any other difference is `ipfix:unexplained` |
| C10-10 (address fields consume the declared length, re-export writes 4 / 16 bytes) | a data set under unsupported widths is explained by "a lossy kind is present"; hostile templates nearly always contained one | templates made only of lossless kinds (addresses, unsigned numbers, opaque bytes) at widths they do not naturally have, in `hostile` |
| C04-9, C06-10 (memoised V9 record size survives define / data / options template / define shorter / data; or a redefinition with the same field count) | a 4-5 step history on one id: the exhaustive cache model visits every (cache, packet) pair once, not every sequence, and 60 random walks rarely hit it; C06 did not claim a structure finding | life-cycle models `MC_Life9` / `MC_LifeX` (history in the VIEW: every sequence of 5 (thorough: 6) packets over one id is a vector); `RedefFindings` attributes to C06 a data set of a redefined id that is not decoded as its latest definition says |
| C04-10 (V9 protocol byte 255 decoded as Unknown) | `ProtoNameOk` accepted unknown / reserved / unassigned for all of 145..255 | 255 must be named Reserved (its IANA keyword); this exposed that V5/V7 records named it Unknown (fix `64f2fd1`) |
| C01-9 (a filtered IPFIX message is stepped over by its length word: length 0 never ends) | the framing alphabet had a length below 16 only as 9 | `PktIx_L0` in `MC_Framing` (under the allowed sets that filter version 10); hang budget and CPU-time watchdog in the harness |
| C11-10 (IPFIX sets read past the end of the message into the next packet) | no message whose last set runs past the end of the message | `PktIx_Over` in `MC_Framing`; overrunning last sets in the chained sequences of the rounds driver |
| C03-10 (V7 record bytes computed in 16 bits: counts >= 1261 wrap) | counts beyond a datagram appeared only over empty or tiny bodies | `bigcount_session` (truncate driver): counts around 65536/48 and 65536/52, their doubles, 32768, 65535, over bodies of exactly the wrapped length and a few records more |
| C15-7, C15-8 (parser state cloned before every packet; per-record capacity taken from the announced field count) | a large cache was only followed by template sets; no template announced more fields than it carries | scale shapes 10 (wide templates in both protocols, then one minimal packet and datagrams packed with minimal packets) and 11 (IPFIX template announcing 4 096 / 65 535 fields with one present, then hundreds of records) |

| change | what it does | what it needs to manifest | confirmed | checks that report a VIOLATION | own property's check |
|---|---|---|---|---|---|
%s
""" % (n, hit, anyhit, "\n".join(rows))
p = "/verif/DESIGN.md"
s = open(p).read()
a = s.find("\n\n--------------------------------------------------------------------------------------------------\n## 13. Sensitivity")
if a >= 0:
    b = s.find("\n\n--------------------------------------------------------------------------------------------------\n## 14.", a)
    s = s[:a] + txt.rstrip("\n") + s[b:]
else:
    b = s.find("\n\n--------------------------------------------------------------------------------------------------\n## 14.")
    s = s[:b] + txt.rstrip("\n") + s[b:]
open(p, "w").write(s)
print(n, hit, anyhit)
