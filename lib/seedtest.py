#!/usr/bin/env python3
"""seedtest.py <prop> <dir-with-patchN.diff/demoN.rs/metaN.json> <N> : confirm a seeded change (compiles, suite passes,
demo fails with / passes without) in a scratch worktree, then run the quick checks against the changed tree and record
which of them report a VIOLATION.  Writes /verif/seeded/<prop>-<N>/ ."""
import json, os, shutil, subprocess, sys, time
prop, src, n = sys.argv[1], sys.argv[2], sys.argv[3]
checks = sys.argv[4].split(",") if len(sys.argv) > 4 else None
VERIF = os.path.dirname(os.path.dirname(os.path.abspath(__file__)))
wt = "/tmp/seedwt/%s-%s" % (prop, n)
out = "/tmp/seedout/%s-%s" % (prop, n)
def sh(cmd, cwd=None, env=None):
    r = subprocess.run(cmd, cwd=cwd, env=env, shell=isinstance(cmd, str), stdout=subprocess.PIPE, stderr=subprocess.STDOUT, text=True)
    return r.returncode, r.stdout
shutil.rmtree(wt, ignore_errors=True); shutil.rmtree(out, ignore_errors=True)
os.makedirs(os.path.dirname(wt), exist_ok=True)
sh("git -C /repo worktree prune")
rc, o = sh("git -C /repo worktree add -q --detach %s HEAD" % wt)
assert rc == 0, o
sh("cp -r /repo/target %s/target" % wt)
patch = os.path.join(src, "patch%s.diff" % n); demo = os.path.join(src, "demo%s.rs" % n)
if not os.path.exists(patch):      # re-evaluation of a kept change: seeded/<prop>-<n>/{patch.diff,demo.rs,meta.json}
    patch = os.path.join(src, "patch.diff"); demo = os.path.join(src, "demo.rs")
os.makedirs(wt + "/tests", exist_ok=True)
shutil.copy(demo, wt + "/tests/demo.rs")
res = {"property": prop, "n": n}
rc, o = sh("cargo test --offline --test demo 2>&1 | tail -5", cwd=wt); res["demo_clean_pass"] = "test result: ok" in o
rc, o = sh("git apply %s" % patch, cwd=wt); assert rc == 0, o
rc, o = sh("cargo test --offline --test demo 2>&1 | tail -8", cwd=wt); res["demo_patched_fail"] = "FAILED" in o or "failed" in o
rc, o = sh("cargo test --offline --lib 2>&1 | grep 'test result'", cwd=wt); res["suite_patched"] = o.strip()
os.remove(wt + "/tests/demo.rs")
import glob
props = checks or [c["property_id"] for c in json.load(open(VERIF + "/MANIFEST.json"))["checks"]]
env = dict(os.environ, VERIF_REPO=wt, VERIF_OUT=out, VERIF_SEED="1")
det = {}
t = time.time()
for p in props:
    rc, o = sh([VERIF + "/bin/check", p, "--tier", "quick"], cwd=VERIF, env=env)
    viol = [l for l in o.splitlines() if l.startswith("VIOLATION")]
    det[p] = {"exit": rc, "violations": [v[:300] for v in viol[:5]], "n": len(viol)}
    if rc not in (0, 1):
        det[p]["tail"] = o[-1500:]
res["checks"] = det
res["detected_by"] = sorted(p for p, d in det.items() if d["exit"] == 1)
res["target_detected"] = det.get(prop, {}).get("exit") == 1
res["wall_s"] = round(time.time() - t)
dst = "/verif/seeded/%s-%s" % (prop, n)
os.makedirs(dst, exist_ok=True)
if os.path.abspath(patch) != os.path.abspath(dst + "/patch.diff"):
    shutil.copy(patch, dst + "/patch.diff"); shutil.copy(demo, dst + "/demo.rs")
mp = os.path.join(src, "meta%s.json" % n)
if not os.path.exists(mp):
    mp = os.path.join(src, "meta.json")
meta = json.load(open(mp)) if os.path.exists(mp) else {}
meta["confirmed"] = {k: res[k] for k in ("demo_clean_pass", "demo_patched_fail", "suite_patched")}
meta["ran"] = "lib/seedtest.py: scratch worktree of /repo HEAD + patch; harness built against it (cargo --config paths); quick checks: " + ",".join(props)
meta["detected_by"] = res["detected_by"]; meta["target_detected"] = res["target_detected"]; meta["checks"] = det
json.dump(meta, open(dst + "/meta.json", "w"), indent=1)
sh("git -C /repo worktree remove --force %s" % wt); shutil.rmtree(out, ignore_errors=True)
print(json.dumps({k: res[k] for k in ("property", "n", "demo_clean_pass", "demo_patched_fail", "suite_patched", "detected_by", "target_detected", "wall_s")}))
